//! C20 — the command-line tool exits cleanly and prints exactly what the library computes.
//! Engine E4: configuration enumeration. The freshly built `minidump-stackwalk` binary is run
//! under the complete option matrix; its exit status, stdout, stderr, --output-file, --log-file
//! and --cyborg files are compared with what the library produces in-process for the same
//! options.
use minidump::*;
use minidump_processor::*;
use minidump_unwind::{simple_symbol_supplier, MultiSymbolProvider, Symbolizer};
use std::collections::HashMap;
use std::path::{Path, PathBuf};
use std::sync::{Arc, Mutex};
use vh::procgen::{self, CpuK, ExcM, Model, ThreadM};
use vh::*;

const MODES: [&str; 5] = ["(default)", "--human", "--json", "--cyborg", "--dump"];
const FEATURES: [&str; 3] = ["stable-basic", "stable-all", "unstable-all"];
const SYMS: &str = "/repo/testdata/symbols";

#[derive(Clone, Debug)]
struct Cfg {
    mode: usize,
    brief: bool,
    pretty: bool,
    feat: usize,
    outfile: bool,
    logfile: bool,
    /// 0 none, 1 positional, 2 --symbols-path, 3 --symbols-url (a loopback server that answers 404, the first
    /// request after `delay_ms`), 4 --symbols-path <empty directory> + the symbol directory positional,
    /// 5 --symbols-path <symbol directory> + an empty directory positional,
    /// 6 --symbols-path <a path with a comma and a blank in it that leads to the symbol directory>
    symmode: u8,
    no_interactive: bool,
    delay_ms: u64,
}
impl Cfg {
    fn json(&self) -> Value {
        json!({"mode": MODES[self.mode], "brief": self.brief, "pretty": self.pretty, "features": FEATURES[self.feat], "output_file": self.outfile, "log_file": self.logfile,
               "symbols": (["none", "positional", "--symbols-path", "--symbols-url (404 server)", "--symbols-path EMPTY + positional", "--symbols-path + positional EMPTY", "--symbols-path with a comma and a blank in it"][self.symmode as usize]), "no_interactive": self.no_interactive, "first_answer_delayed_ms": self.delay_ms})
    }
    fn human(&self) -> bool {
        matches!(self.mode, 0 | 1 | 3)
    }
    fn json_out(&self) -> bool {
        matches!(self.mode, 2 | 3)
    }
    fn dump(&self) -> bool {
        self.mode == 4
    }
    fn invalid(&self) -> bool {
        (self.pretty && !self.json_out()) || (self.brief && !(self.human() || self.dump()))
    }
}
fn matrix() -> Vec<Cfg> {
    let mut v = vec![];
    for mode in 0..5 {
        for brief in [false, true] {
            for pretty in [false, true] {
                for feat in 0..3 {
                    for outfile in [false, true] {
                        for logfile in [false, true] {
                            for symmode in 0..3u8 {
                                // --no-interactive alternates over the matrix (both values occur with every mode)
                                let no_interactive = (v.len() + mode) % 2 == 0;
                                v.push(Cfg { mode, brief, pretty, feat, outfile, logfile, symmode, no_interactive, delay_ms: 0 });
                            }
                        }
                    }
                }
            }
        }
    }
    v
}
fn spanning() -> Vec<Cfg> {
    let c = |mode, brief, pretty, feat, outfile, symmode| Cfg { mode, brief, pretty, feat, outfile, logfile: false, symmode, no_interactive: true, delay_ms: 0 };
    vec![c(0, false, false, 0, false, 0), c(1, true, false, 2, true, 1), c(2, false, false, 0, false, 2), c(2, false, true, 1, true, 0), c(3, false, true, 2, false, 1), c(3, true, false, 0, true, 2), c(4, false, false, 0, false, 0), c(4, true, false, 1, true, 0)]
}

#[derive(Clone)]
enum InputKind {
    Dump,
    Missing,
    Empty,
    Directory,
    Garbage,
}
#[derive(Clone)]
struct Input {
    name: String,
    path: PathBuf,
    kind: InputKind,
}

fn gen_inputs(dir: &Path) -> Vec<Input> {
    let mut v = vec![];
    let mut add = |name: &str, bytes: Vec<u8>| {
        let p = dir.join(format!("{name}.dmp"));
        std::fs::write(&p, bytes).expect("write generated dump");
        v.push(Input { name: format!("generated/{name}"), path: p, kind: InputKind::Dump });
    };
    // no threads
    let m = Model::new(CpuK::Amd64, 0x8201);
    add("no-threads", procgen::build(&m));
    // crashing thread whose context is unreadable (no frames)
    let mut m = Model::new(CpuK::X86, 2);
    m.threads = vec![ThreadM { tid: 7, ctx_ok: false, ip: 0, sp: 0 }, ThreadM { tid: 8, ctx_ok: true, ip: 0x4000_1000, sp: procgen::STACK_BASE + 0x1008 }];
    m.modules = vec![procgen::app_module()];
    m.exc = Some(ExcM { tid: 7, code: 0xC000_0005, flags: 0, address: 0x10, nparams: 2, info: { let mut i = [0u64; 15]; i[1] = 0x10; i }, ctx: 0, ctx_ip: 0, ctx_sp: 0 });
    add("crashing-thread-without-frames", procgen::build(&m));
    // linux amd64 with status + maps
    let mut m = Model::new(CpuK::Amd64, 0x8201);
    m.threads = vec![ThreadM { tid: 1, ctx_ok: true, ip: 0x4000_1000, sp: procgen::STACK_BASE + 8 }];
    m.modules = vec![procgen::app_module()];
    m.status = Some(b"Name:\tapp\nPid:\t4242\n".to_vec());
    m.maps = procgen::MapsM::Linux(vec![(0x4000_0000, 0x4000_ffff, "rx")]);
    m.exc = Some(ExcM { tid: 1, code: 11, flags: 1, address: 0x20, nparams: 0, info: [0; 15], ctx: 1, ctx_ip: 0x4000_1000, ctx_sp: procgen::STACK_BASE + 8 });
    add("linux-amd64", procgen::build(&m));
    // arm64 macOS
    let mut m = Model::new(CpuK::Arm64, 0x8101);
    m.threads = vec![ThreadM { tid: 1, ctx_ok: true, ip: 0x4000_1000, sp: procgen::STACK_BASE + 8 }, ThreadM { tid: 2, ctx_ok: true, ip: 0x4000_2000, sp: procgen::STACK_BASE + 0x1008 }];
    m.thread_names = vec![(1, "main \"thread\"".into()), (2, "worker\u{1}".into())];
    m.modules = vec![procgen::app_module()];
    add("macos-arm64", procgen::build(&m));
    // modules (loaded and unloaded) whose last byte is the last byte of the address space, and one byte short of it
    for k in 0..procgen::gen_edge_modules(Tier::Quick).len {
        let g = procgen::gen_edge_modules(Tier::Quick);
        add(&format!("module-at-the-top-of-the-address-space-{k}"), procgen::build(&(g.model)(k)));
    }
    v
}

fn all_inputs(dir: &Path) -> Vec<Input> {
    let out_dir = dir;
    let mut v = vec![];
    for n in ["test.dmp", "linux-mini.dmp"] {
        v.push(Input { name: format!("corpus/{n}"), path: PathBuf::from(format!("/repo/testdata/{n}")), kind: InputKind::Dump });
    }
    v.extend(gen_inputs(dir));
    // every synthetic seed dump of C01 (little-endian): all stream types, both memory lists, all CPU contexts
    for (name, bytes) in vh::seeds::synthetic_seeds() {
        if bytes.starts_with(b"MDMP") {
            let p = dir.join(format!("seed-{}.dmp", name.replace(['/', ' ', ':'], "_")));
            std::fs::write(&p, &bytes).expect("write seed dump");
            v.push(Input { name: format!("seed/{name}"), path: p, kind: InputKind::Dump });
        }
    }
    {
        // a thread whose stack size is not a multiple of the pointer size; an empty Linux text stream
        use minidump_synth as synth;
        use test_assembler::{Endian, Section};
        let e = Endian::Little;
        let stack = synth::Memory::with_section(Section::with_endian(e).append_repeated(0x41, 0x1d), 0x7000_0000);
        let ctx = synth::x86_context(e, 0x40_1000, 0x7000_0004);
        let d = synth::SynthMinidump::with_endian(e)
            .add_system_info(synth::SystemInfo::new(e).set_processor_architecture(0).set_platform_id(0x8201))
            .add_thread(synth::Thread::new(e, 1, &stack, &ctx))
            .add_memory(stack)
            .add(ctx)
            .set_linux_environ(b"")
            .set_linux_lsb_release(b"DISTRIB_ID=x\n");
        let p = dir.join("odd-stack-empty-streams.dmp");
        std::fs::write(&p, d.finish().expect("synth")).expect("write");
        v.push(Input { name: "generated/odd-stack-empty-streams".into(), path: p, kind: InputKind::Dump });
    }
    {
        // a macOS dump with a boot-args stream (and one thread, so that it processes)
        use minidump_synth as synth;
        use test_assembler::{Endian, Section};
        let e = Endian::Little;
        let stack = synth::Memory::with_section(Section::with_endian(e).append_repeated(0, 0x40), 0x7000_0000);
        let ctx = synth::amd64_context(e, 0x40_1000, 0x7000_0008);
        let ba = synth::DumpString::new("-v debug=0x144 keepsyms=1", e);
        let ty = minidump::format::MINIDUMP_STREAM_TYPE::MozMacosBootargsStream as u32;
        let d = synth::SynthMinidump::with_endian(e)
            .add_system_info(synth::SystemInfo::new(e).set_processor_architecture(9).set_platform_id(0x8101))
            .add_thread(synth::Thread::new(e, 1, &stack, &ctx))
            .add_memory(stack)
            .add(ctx)
            .add_stream(synth::SimpleStream { stream_type: ty, section: Section::with_endian(e).D32(ty).D64(&synth::DumpSection::file_offset(&ba)) })
            .add(ba);
        let p = dir.join("mac-boot-args.dmp");
        std::fs::write(&p, d.finish().expect("synth")).expect("write");
        v.push(Input { name: "generated/mac-boot-args".into(), path: p, kind: InputKind::Dump });
    }
    {
        // a dump whose CrashpadInfo stream is present but unreadable (its version field is 0)
        'found: for (name, bytes) in vh::seeds::synthetic_seeds() {
            if !bytes.starts_with(b"MDMP") || bytes.len() < 32 {
                continue;
            }
            let rd = |o: usize| u32::from_le_bytes(bytes[o..o + 4].try_into().unwrap()) as usize;
            let (count, dir) = (rd(8), rd(12));
            for k in 0..count {
                let e = dir + 12 * k;
                if e + 12 <= bytes.len() && rd(e) == 0x4350_0001 && rd(e + 8) + 4 <= bytes.len() {
                    let mut b = bytes.clone();
                    let rva = rd(e + 8);
                    b[rva..rva + 4].copy_from_slice(&0u32.to_le_bytes());
                    let p = out_dir.join("crashpad-version-0.dmp");
                    std::fs::write(&p, &b).expect("write");
                    v.push(Input { name: format!("generated/crashpad-info-unreadable (from {name})"), path: p, kind: InputKind::Dump });
                    break 'found;
                }
            }
        }
    }
    // misc info 5 with XSAVE features up to the last one enabled (the raw dump lists them)
    if let Some((name, bytes)) = vh::seeds::synthetic_seeds().into_iter().find(|s| s.0 == "misc5-le") {
        let p = out_dir.join("misc5.dmp");
        std::fs::write(&p, &bytes).expect("write");
        v.push(Input { name: format!("generated/{name}"), path: p, kind: InputKind::Dump });
    }
    for (name, _b) in vh::seeds::corpus_seeds() {
        let n = name.trim_start_matches("corpus/").to_string();
        if n != "test.dmp" && n != "linux-mini.dmp" {
            v.push(Input { name: name.clone(), path: PathBuf::from(format!("/repo/testdata/{n}")), kind: InputKind::Dump });
        }
    }
    v.push(Input { name: "missing-path".into(), path: dir.join("does-not-exist.dmp"), kind: InputKind::Missing });
    let e = dir.join("empty.dmp");
    std::fs::write(&e, b"").unwrap();
    v.push(Input { name: "empty-file".into(), path: e, kind: InputKind::Empty });
    v.push(Input { name: "a-directory".into(), path: dir.to_path_buf(), kind: InputKind::Directory });
    let g = dir.join("garbage.dmp");
    std::fs::write(&g, b"MDMP\x93\xa7\x00\x00\xff\xff\xff\xff\x20\x00\x00\x00 this is not a dump at all ........").unwrap();
    v.push(Input { name: "garbage-with-magic".into(), path: g, kind: InputKind::Garbage });
    v
}

// ------------------------------------------------------------------------------------------
// what the library computes

#[derive(Clone)]
enum Expected {
    Unreadable,
    ProcessError,
    Reports { text: Vec<u8>, brief: Vec<u8>, json: Vec<u8>, pretty: Vec<u8> },
}
thread_local! {
    static RT: tokio::runtime::Runtime = tokio::runtime::Builder::new_current_thread().enable_all().build().expect("tokio runtime");
}
/// `symbols`: 0 no symbolizer, 1 the corpus symbol directory, 2 a symbolizer that finds nothing (what a
/// symbol server answering 404 amounts to)
fn library(path: &Path, symbols: u8, feat: usize) -> Expected {
    let dump = match Minidump::read_path(path) {
        Ok(d) => d,
        Err(_) => return Expected::Unreadable,
    };
    let mut provider = MultiSymbolProvider::new();
    if symbols == 1 {
        provider.add(Box::new(Symbolizer::new(simple_symbol_supplier(vec![PathBuf::from(SYMS)]))));
    } else if symbols == 2 {
        provider.add(Box::new(Symbolizer::new(simple_symbol_supplier(vec![]))));
    }
    let mut o = match feat {
        0 => ProcessorOptions::stable_basic(),
        1 => ProcessorOptions::stable_all(),
        _ => ProcessorOptions::unstable_all(),
    };
    // the tool overrides this with its own flag (default off)
    o.recover_function_args = false;
    let st = match RT.with(|rt| rt.block_on(process_minidump_with_options(&dump, &provider, o))) {
        Ok(s) => s,
        Err(_) => return Expected::ProcessError,
    };
    let (mut text, mut brief, mut json, mut pretty) = (vec![], vec![], vec![], vec![]);
    st.print(&mut text).expect("print");
    st.print_brief(&mut brief).expect("print_brief");
    st.print_json(&mut json, false).expect("print_json");
    st.print_json(&mut pretty, true).expect("print_json pretty");
    Expected::Reports { text, brief, json, pretty }
}
/// landmarks of the raw dump output: library printers that must appear, in order
fn dump_landmarks(path: &Path, brief: bool) -> Option<Vec<Vec<u8>>> {
    let dump = Minidump::read_path(path).ok()?;
    let mut v = vec![];
    let mut h = vec![];
    dump.print(&mut h).ok()?;
    v.push(h);
    let sys = dump.get_stream::<MinidumpSystemInfo>().ok();
    let misc = dump.get_stream::<MinidumpMiscInfo>().ok();
    let mem = dump.get_memory();
    if let Ok(tl) = dump.get_stream::<MinidumpThreadList>() {
        let mut o = vec![];
        tl.print(&mut o, mem.as_ref(), sys.as_ref(), misc.as_ref(), brief).ok()?;
        v.push(o);
    }
    if let Ok(ml) = dump.get_stream::<MinidumpModuleList>() {
        let mut o = vec![];
        ml.print(&mut o).ok()?;
        v.push(o);
    }
    // both memory-list streams are printed when both are present (the 64-bit one first, as the unified list)
    if let Ok(m64) = dump.get_stream::<MinidumpMemory64List>() {
        let mut o = vec![];
        m64.print(&mut o, brief).ok()?;
        v.push(o);
        if let Ok(m32) = dump.get_stream::<MinidumpMemoryList>() {
            let mut o = vec![];
            m32.print(&mut o, brief).ok()?;
            v.push(o);
        }
    } else if let Ok(m32) = dump.get_stream::<MinidumpMemoryList>() {
        let mut o = vec![];
        m32.print(&mut o, brief).ok()?;
        v.push(o);
    }
    if let Ok(ex) = dump.get_stream::<MinidumpException>() {
        let mut o = vec![];
        ex.print(&mut o, sys.as_ref(), misc.as_ref()).ok()?;
        v.push(o);
    }
    if let Some(s) = &sys {
        let mut o = vec![];
        s.print(&mut o).ok()?;
        v.push(o);
    }
    Some(v)
}
fn find_from(hay: &[u8], needle: &[u8], from: usize) -> Option<usize> {
    if needle.is_empty() {
        return Some(from);
    }
    hay[from..].windows(needle.len()).position(|w| w == needle).map(|p| p + from + needle.len())
}

// ------------------------------------------------------------------------------------------

struct Shared {
    cli: PathBuf,
    inputs: Vec<Input>,
    cache: Mutex<HashMap<(usize, u8, usize), Expected>>,
    dump_cache: Mutex<HashMap<(usize, bool), Option<Vec<Vec<u8>>>>>,
    /// first raw-dump output seen per (input, brief): must not depend on other options
    dump_seen: Mutex<HashMap<(usize, bool), Vec<u8>>>,
    _dir: tempfile::TempDir,
}

/// A loopback HTTP server that answers every request with 404, the first one only after `delay_ms`
/// (the listener thread lives until the process ends). Returns its port.
fn start_404_server(delay_ms: u64) -> u16 {
    use std::io::{Read, Write};
    let l = std::net::TcpListener::bind("127.0.0.1:0").expect("bind loopback");
    let port = l.local_addr().unwrap().port();
    let first = Arc::new(std::sync::atomic::AtomicBool::new(true));
    std::thread::spawn(move || {
        for c in l.incoming() {
            let Ok(mut c) = c else { continue };
            let first = first.clone();
            std::thread::spawn(move || {
                let _ = c.set_read_timeout(Some(std::time::Duration::from_secs(30)));
                let mut pending: Vec<u8> = vec![];
                let mut buf = [0u8; 4096];
                loop {
                    while let Some(end) = pending.windows(4).position(|w| w == b"\r\n\r\n") {
                        pending.drain(..end + 4);
                        if first.swap(false, std::sync::atomic::Ordering::SeqCst) {
                            std::thread::sleep(std::time::Duration::from_millis(delay_ms));
                        }
                        if c.write_all(b"HTTP/1.1 404 Not Found\r\nContent-Length: 0\r\n\r\n").is_err() {
                            return;
                        }
                    }
                    match c.read(&mut buf) {
                        Ok(0) | Err(_) => return,
                        Ok(n) => pending.extend_from_slice(&buf[..n]),
                    }
                }
            });
        }
    });
    port
}

fn run_cfg(sh: &Shared, ii: usize, cfg: &Cfg, l: &mut Local) {
    let inp = &sh.inputs[ii];
    let tmp = tempfile::tempdir().expect("tempdir");
    let (cy, of, lf) = (tmp.path().join("cyborg.json"), tmp.path().join("out.txt"), tmp.path().join("log.txt"));
    let mut args: Vec<String> = vec![];
    if cfg.no_interactive {
        args.push("--no-interactive".into());
    }
    match cfg.mode {
        1 => args.push("--human".into()),
        2 => args.push("--json".into()),
        3 => {
            args.push("--cyborg".into());
            args.push(cy.display().to_string());
        }
        4 => args.push("--dump".into()),
        _ => {}
    }
    if cfg.brief {
        args.push("--brief".into());
    }
    if cfg.pretty {
        args.push("--pretty".into());
    }
    args.push("--features".into());
    args.push(FEATURES[cfg.feat].into());
    if cfg.outfile {
        args.push("--output-file".into());
        args.push(of.display().to_string());
    }
    if cfg.logfile {
        args.push("--log-file".into());
        args.push(lf.display().to_string());
    }
    let empty_dir = tmp.path().join("no-symbols-here");
    if cfg.symmode >= 4 {
        std::fs::create_dir_all(&empty_dir).expect("empty dir");
    }
    if cfg.symmode == 2 || cfg.symmode == 5 {
        args.push("--symbols-path".into());
        args.push(SYMS.into());
    }
    if cfg.symmode == 4 {
        args.push("--symbols-path".into());
        args.push(empty_dir.display().to_string());
    }
    if cfg.symmode == 6 {
        let odd = tmp.path().join("symbols, second copy");
        std::os::unix::fs::symlink(SYMS, &odd).expect("symlink");
        args.push("--symbols-path".into());
        args.push(odd.display().to_string());
    }
    // a report file that already exists (left by an earlier, longer report) is REPLACED, not written over in place
    if cfg.outfile {
        std::fs::write(&of, vec![b'Z'; 300_000]).expect("pre-existing output file");
    }
    if cfg.mode == 3 {
        std::fs::write(&cy, vec![b'Z'; 300_000]).expect("pre-existing cyborg file");
    }
    let server = if cfg.symmode == 3 { Some(start_404_server(cfg.delay_ms)) } else { None };
    if let Some(port) = server {
        args.push("--symbols-url".into());
        args.push(format!("http://127.0.0.1:{port}/"));
        args.push("--symbols-cache".into());
        args.push(tmp.path().join("symcache").display().to_string());
        args.push("--symbols-tmp".into());
        args.push(tmp.path().display().to_string());
    }
    args.push(inp.path.display().to_string());
    if cfg.symmode == 1 || cfg.symmode == 4 {
        args.push(SYMS.into());
    }
    if cfg.symmode == 5 {
        args.push(empty_dir.display().to_string());
    }
    let out = std::process::Command::new(&sh.cli).args(&args).env("TMPDIR", tmp.path()).env_remove("RUST_LOG").output().expect("spawn minidump-stackwalk");
    l.eval();
    let detail = || json!({"input": inp.name, "config": cfg.json(), "args": args});
    let fail = |l: &mut Local, sig: &str, what: String| l.violation(format!("c20:{sig}"), what, detail());
    use std::os::unix::process::ExitStatusExt;
    let code = out.status.code();
    if let Some(s) = out.status.signal() {
        fail(l, "killed-by-signal", format!("the tool died of signal {s}"));
        return;
    }
    if matches!(code, Some(101) | Some(134)) {
        fail(l, "panic-or-abort-exit", format!("the tool exited with status {code:?} (panic/abort); stderr: {}", String::from_utf8_lossy(&out.stderr).chars().take(200).collect::<String>()));
        return;
    }
    let code = code.unwrap_or(-1);
    // a file still holding exactly its earlier content was not written to at all
    let untouched = |b: &Vec<u8>| b.len() == 300_000 && b.iter().all(|c| *c == b'Z');
    let primary: Vec<u8> = if cfg.outfile { std::fs::read(&of).ok().filter(|b| !untouched(b)).unwrap_or_default() } else { out.stdout.clone() };
    let diag: Vec<u8> = if cfg.logfile { [out.stderr.clone(), std::fs::read(&lf).unwrap_or_default()].concat() } else { out.stderr.clone() };
    let cyb = std::fs::read(&cy).ok().filter(|b| !untouched(b));
    l.outcome(&format!("{} -> exit {code}", match inp.kind { InputKind::Dump => "dump", _ => "bad-input" }));
    l.distinct(&(ii, cfg.mode, cfg.brief, cfg.pretty, cfg.feat, cfg.symmode, code, hash_of(&primary)));

    let expect_failure = |l: &mut Local, why: &str| {
        if code != 1 {
            fail(l, "wrong-exit-status-on-error", format!("{why}: expected exit status 1, got {code}"));
        }
        if diag.is_empty() {
            fail(l, "no-diagnostic", format!("{why}: nothing on standard error (or in the log file)"));
        }
        if !primary.is_empty() || (cfg.outfile && !out.stdout.is_empty()) {
            fail(l, "output-on-failure", format!("{why}: the tool failed yet wrote {} bytes to its primary output", primary.len().max(out.stdout.len())));
        }
        if cyb.as_ref().is_some_and(|c| !c.is_empty()) {
            fail(l, "cyborg-output-on-failure", format!("{why}: the tool failed yet wrote a JSON report to the --cyborg file"));
        }
    };
    if cfg.invalid() {
        expect_failure(l, "rejected option combination");
        return;
    }
    if !matches!(inp.kind, InputKind::Dump) {
        expect_failure(l, "unreadable input");
        return;
    }
    if cfg.dump() {
        if code != 0 {
            fail(l, "dump-mode-fails", format!("--dump on a readable minidump exited with {code}"));
            return;
        }
        if cfg.outfile && !out.stdout.is_empty() {
            fail(l, "stdout-not-empty-with-output-file", "stdout is not empty although --output-file was given".into());
        }
        let lm = sh.dump_cache.lock().unwrap().entry((ii, cfg.brief)).or_insert_with(|| dump_landmarks(&inp.path, cfg.brief)).clone();
        if let Some(lm) = lm {
            let mut pos = 0;
            for (k, piece) in lm.iter().enumerate() {
                match find_from(&primary, piece, pos) {
                    Some(p) => pos = p,
                    None => {
                        fail(l, "dump-output-misses-library-print", format!("raw dump output lacks (in order) library printer #{k} of [header, thread list, module list, memory list(s), exception, system info] (those present)"));
                        break;
                    }
                }
            }
        }
        let mut seen = sh.dump_seen.lock().unwrap();
        match seen.get(&(ii, cfg.brief)) {
            Some(prev) if prev != &primary => fail(l, "dump-output-depends-on-unrelated-options", "raw dump output differs between runs that differ only in features / symbols / log / output options".into()),
            Some(_) => {}
            None => {
                seen.insert((ii, cfg.brief), primary.clone());
            }
        }
        return;
    }
    let symclass: u8 = match cfg.symmode {
        0 => 0,
        3 => 2,
        _ => 1,
    };
    let exp = sh.cache.lock().unwrap().get(&(ii, symclass, cfg.feat)).cloned();
    let exp = match exp {
        Some(e) => e,
        None => {
            let e = library(&inp.path, symclass, cfg.feat);
            sh.cache.lock().unwrap().insert((ii, symclass, cfg.feat), e.clone());
            e
        }
    };
    match exp {
        Expected::Unreadable | Expected::ProcessError => expect_failure(l, "the library cannot read / process this dump"),
        Expected::Reports { text, brief, json, pretty } => {
            if code != 0 {
                fail(l, "fails-although-library-succeeds", format!("exit status {code} although the library processes this dump; stderr: {}", String::from_utf8_lossy(&out.stderr).chars().take(200).collect::<String>()));
                return;
            }
            if cfg.outfile && !out.stdout.is_empty() {
                fail(l, "stdout-not-empty-with-output-file", "stdout is not empty although --output-file was given".into());
            }
            let human = if cfg.brief { &brief } else { &text };
            let js = if cfg.pretty { &pretty } else { &json };
            let want_primary: Vec<u8> = match cfg.mode {
                2 => js.clone(),
                _ => human.clone(),
            };
            if primary != want_primary {
                fail(l, &format!("primary-output-differs:{}", MODES[cfg.mode]), format!("primary output ({} bytes) is not what the library prints for these options ({} bytes)", primary.len(), want_primary.len()));
            }
            if cfg.mode == 3 {
                match cyb {
                    Some(c) if &c == js => {}
                    Some(c) => fail(l, "cyborg-json-differs", format!("--cyborg file ({} bytes) is not the library's JSON report ({} bytes)", c.len(), js.len())),
                    None => fail(l, "cyborg-file-missing", "--cyborg file was not written".into()),
                }
            }
        }
    }
}

fn main() {
    run_check("C20", |ctx| {
        let cli = std::env::var("VERIF_CLI").map(PathBuf::from).unwrap_or_else(|_| PathBuf::from("/verif/target/cli/release/minidump-stackwalk"));
        assert!(cli.exists(), "c20: the minidump-stackwalk binary {cli:?} is not built (run ./check build, or ./check C20)");
        let dir = tempfile::tempdir().expect("tempdir");
        let inputs = all_inputs(dir.path());
        let sh = Arc::new(Shared { cli, inputs, cache: Default::default(), dump_cache: Default::default(), dump_seen: Default::default(), _dir: dir });
        let full = matrix();
        let span = spanning();
        let mut def = CheckDef::new(
            "C20",
            "exploration",
            "configuration enumeration on the freshly built binary: the COMPLETE option matrix {no mode, --human, --json, --cyborg P, --dump} x --brief x --pretty x --features {stable-basic, stable-all, unstable-all} x --output-file x --log-file x symbols {none, positional, --symbols-path} (720 configurations, --no-interactive alternating) on 2 inputs (quick) / all inputs (thorough), plus every input (corpus dumps, generated dumps, missing path, empty file, directory, garbage with a valid magic) under 8 spanning configurations, plus the clap-level conflicts, plus every mode with an unwritable primary / cyborg output (/dev/full: must fail with a diagnostic, never exit 0; a path that cannot be created: exit 1, diagnostic, nothing on standard output), plus every valid mode x brief x pretty x interactive or not x output file or not with --symbols-url pointing at a loopback server that answers 404 at once or only after 300 ms, plus both spellings of a symbol directory (--symbols-path and positional) in one command line. Oracle: exit status, primary output (stdout or --output-file) == in-process library output for the same options, --cyborg file == JSON, stdout empty with --output-file, rejected combinations / unreadable inputs -> exit 1 + diagnostic + no output, never 101/134/signal; raw dump output contains the library printers in order and does not depend on unrelated options. distinct_nontrivial = distinct (input, mode, brief, pretty, features, symbols, exit status, output hash).",
        );
        def.assumptions = vec![
            "expected reports are computed in-process by the same library code (release profile with overflow checks); C13 establishes that they are reproducible".into(),
            "for --dump the expected output is not re-implemented: the library's header / thread list / module list / exception / system info prints must appear in order, and the output must be independent of features, symbols, log and output options".into(),
            "clap-level usage errors (two modes at once, unknown --features value) exit with clap's status 2: accepted as 'fails without producing a report' as long as nothing is written and the status is not a panic/abort/signal".into(),
        ];
        let mut cases: Vec<(usize, Cfg)> = vec![];
        let n_full_inputs = if ctx.tier == Tier::Thorough { sh.inputs.len() } else { 2 };
        // quick: input 0 (test.dmp) and input 2 (a generated dump) get the full matrix
        let full_inputs: Vec<usize> = if ctx.tier == Tier::Thorough { (0..n_full_inputs).collect() } else { vec![0, 4] };
        for &ii in &full_inputs {
            for c in &full {
                cases.push((ii, c.clone()));
            }
        }
        for ii in 0..sh.inputs.len() {
            for c in &span {
                cases.push((ii, c.clone()));
            }
        }
        let cases = Arc::new(cases);
        let (s1, c1, s2, c2) = (sh.clone(), cases.clone(), sh.clone(), cases.clone());
        def.spaces.push(Space::new("matrix", cases.len() as u64, move |i, l| run_cfg(&s1, c1[i as usize].0, &c1[i as usize].1, l), move |i| json!({"input": s2.inputs[c2[i as usize].0].name, "config": c2[i as usize].1.json()})).chunked(8).wall(120_000));
        // ---- symbols from a server: every valid mode x brief x pretty x interactive or not x output file or not,
        // the server answering at once or only after 300 ms (the tool waits on the network while its progress
        // timer runs)
        {
            let mut sv: Vec<Cfg> = vec![];
            for mode in 0..5 {
                for brief in [false, true] {
                    for pretty in [false, true] {
                        for no_interactive in [false, true] {
                            for outfile in [false, true] {
                                for delay_ms in [0u64, 300] {
                                    let c = Cfg { mode, brief, pretty, feat: 0, outfile, logfile: false, symmode: 3, no_interactive, delay_ms };
                                    if !c.invalid() {
                                        sv.push(c);
                                    }
                                }
                            }
                        }
                    }
                }
            }
            // both spellings of a symbol directory in one command line (one of them names an empty directory)
            for mode in 0..4 {
                for symmode in [4u8, 5, 6] {
                    for (brief, pretty) in [(false, false), (true, false), (false, true)] {
                        let c = Cfg { mode, brief, pretty, feat: 0, outfile: false, logfile: false, symmode, no_interactive: true, delay_ms: 0 };
                        if !c.invalid() {
                            sv.push(c);
                        }
                    }
                }
            }
            let sv = Arc::new(sv);
            let (s5, v1, v2) = (sh.clone(), sv.clone(), sv.clone());
            def.spaces.push(Space::new("symbol-server", sv.len() as u64, move |i, l| run_cfg(&s5, 0, &v1[i as usize], l), move |i| json!({"input": "corpus/test.dmp", "config": v2[i as usize].json()})).chunked(2).wall(120_000));
        }
        // clap-level rejections
        let conflicts: Vec<Vec<&'static str>> = vec![vec!["--json", "--human"], vec!["--json", "--dump"], vec!["--human", "--dump"], vec!["--features", "bogus"], vec!["--no-such-flag"], vec![]];
        let conflicts = Arc::new(conflicts);
        let (s3, k1, k2) = (sh.clone(), conflicts.clone(), conflicts.clone());
        def.spaces.push(Space::new(
            "rejected-by-argument-parser",
            conflicts.len() as u64,
            move |i, l| {
                let tmp = tempfile::tempdir().expect("tempdir");
                let of = tmp.path().join("out.txt");
                let mut args: Vec<String> = k1[i as usize].iter().map(|s| s.to_string()).collect();
                args.push("--output-file".into());
                args.push(of.display().to_string());
                if !k1[i as usize].is_empty() {
                    args.push("/repo/testdata/test.dmp".into());
                }
                let out = std::process::Command::new(&s3.cli).args(&args).output().expect("spawn");
                l.eval();
                use std::os::unix::process::ExitStatusExt;
                let code = out.status.code().unwrap_or(-1);
                l.outcome(&format!("parser rejection -> exit {code}"));
                l.distinct(&(i, code));
                let d = json!({"args": args});
                if out.status.signal().is_some() || code == 101 || code == 134 || code == 0 {
                    l.violation("c20:rejected-arguments-not-rejected-cleanly", format!("arguments {:?}: exit {code}", k1[i as usize]), d.clone());
                }
                if !out.stdout.is_empty() || std::fs::read(&of).map(|b| !b.is_empty()).unwrap_or(false) {
                    l.violation("c20:report-despite-rejected-arguments", format!("arguments {:?} were rejected yet a report was written", k1[i as usize]), d.clone());
                }
                if out.stderr.is_empty() {
                    l.violation("c20:no-diagnostic", format!("arguments {:?} rejected without a diagnostic", k1[i as usize]), d);
                }
            },
            move |i| json!({"args": k2[i as usize]}),
        ));
        // ---- a primary output that cannot be written (device full): exit 1 + diagnostic, never a silent success
        let full_cases: Vec<(Vec<&'static str>, &'static str)> = vec![
            (vec!["--human"], "output-file"),
            (vec!["--human", "--brief"], "output-file"),
            (vec!["--json"], "output-file"),
            (vec!["--json", "--pretty"], "output-file"),
            (vec!["--dump"], "output-file"),
            (vec!["--dump", "--brief"], "output-file"),
            (vec![], "cyborg-file"),
            (vec!["--json"], "stdout"),
            (vec!["--human"], "stdout"),
            (vec!["--dump"], "stdout"),
            // outputs that cannot even be created: missing parent directory / the path is a directory
            (vec![], "cyborg-uncreatable"),
            (vec!["--brief"], "cyborg-uncreatable"),
            (vec![], "cyborg-is-directory"),
            (vec!["--human"], "output-file-uncreatable"),
            (vec!["--json"], "output-file-uncreatable"),
            (vec!["--dump"], "output-file-uncreatable"),
            (vec!["--json"], "output-file-is-directory"),
        ];
        let full_cases = Arc::new(full_cases);
        let (s4, f1, f2) = (sh.clone(), full_cases.clone(), full_cases.clone());
        let n_in = sh.inputs.iter().filter(|i| matches!(i.kind, InputKind::Dump)).count().min(6) as u64;
        def.spaces.push(Space::new(
            "unwritable-output",
            full_cases.len() as u64 * n_in,
            move |i, l| {
                let (mode, target) = &f1[(i % f1.len() as u64) as usize];
                let inp = s4.inputs.iter().filter(|x| matches!(x.kind, InputKind::Dump)).nth((i / f1.len() as u64) as usize).expect("input");
                let mut args: Vec<String> = vec!["--no-interactive".into()];
                args.extend(mode.iter().map(|s| s.to_string()));
                let mut cmd = std::process::Command::new(&s4.cli);
                match *target {
                    "output-file" => {
                        args.push("--output-file".into());
                        args.push("/dev/full".into());
                    }
                    "cyborg-file" => {
                        args.push("--cyborg".into());
                        args.push("/dev/full".into());
                    }
                    "cyborg-uncreatable" => {
                        args.push("--cyborg".into());
                        args.push("/nonexistent-directory-of-verif/sub/report.json".into());
                    }
                    "cyborg-is-directory" => {
                        args.push("--cyborg".into());
                        args.push("/tmp".into());
                    }
                    "output-file-uncreatable" => {
                        args.push("--output-file".into());
                        args.push("/nonexistent-directory-of-verif/sub/report.txt".into());
                    }
                    "output-file-is-directory" => {
                        args.push("--output-file".into());
                        args.push("/tmp".into());
                    }
                    _ => {
                        cmd.stdout(std::fs::OpenOptions::new().write(true).open("/dev/full").expect("open /dev/full"));
                    }
                }
                args.push(inp.path.display().to_string());
                let out = cmd.args(&args).stderr(std::process::Stdio::piped()).output().expect("spawn");
                l.eval();
                use std::os::unix::process::ExitStatusExt;
                let code = out.status.code().unwrap_or(-1);
                l.outcome(&format!("unwritable {target} -> exit {code}"));
                l.distinct(&("full", i % f1.len() as u64, code));
                let d = json!({"input": inp.name, "args": args, "unwritable": target});
                // does the library produce a report for this input at all? (otherwise the failure is about the input)
                if out.status.signal().is_some() || code == 101 || code == 134 {
                    l.violation("c20:panic-or-signal-on-unwritable-output", format!("exit {code} / signal {:?} when the {target} cannot be written", out.status.signal()), d);
                } else if code == 0 {
                    l.violation("c20:success-reported-although-output-was-not-written", format!("the {target} is a full device, every write fails, yet the tool exits 0"), d);
                } else if out.stderr.is_empty() {
                    l.violation("c20:no-diagnostic", format!("unwritable {target}: exit {code} without a diagnostic"), d);
                } else if target.ends_with("uncreatable") || target.ends_with("is-directory") {
                    // the failure is known before any report exists: nothing may reach the primary output
                    if !out.stdout.is_empty() {
                        l.violation("c20:output-on-failure", format!("{target}: the tool failed (exit {code}) yet wrote {} bytes to standard output", out.stdout.len()), d);
                    }
                }
            },
            move |i| json!({"mode": f2[(i % f2.len() as u64) as usize].0, "unwritable": f2[(i % f2.len() as u64) as usize].1}),
        ));
        def
    })
}
