//! C14 — the process state is a faithful index of the dump.
//! Bounded-exhaustive: every generated dump of three stated product spaces goes through the
//! public end-to-end path (`Minidump::read` + `process_minidump_with_options`) and every field
//! the property names is compared with an independent model computed from the generator's
//! parameters (procgen.rs).
use minidump::system_info::PointerWidth;
use minidump_processor::ProcessState;
use minidump_unwind::{CallStackInfo, FrameTrust};
use std::collections::{BTreeMap, BTreeSet};
use std::time::{Duration, SystemTime};
use vh::procgen::*;
use vh::*;

fn check_index(m: &Model, st: &ProcessState, l: &mut Local) {
    let d = || json!({"model": m.summary()});
    let fail = |l: &mut Local, point: &str, what: String| l.violation(format!("c14:{point}"), what, d());
    // ---- one call stack per thread, in order, same ids and names; dump-writer thread skipped
    if st.threads.len() != m.threads.len() {
        fail(l, "threads:count", format!("{} call stacks for {} threads", st.threads.len(), m.threads.len()));
        return;
    }
    let dump_tid = m.dump_tid();
    let target = m.target_tid();
    for (i, (s, t)) in st.threads.iter().zip(&m.threads).enumerate() {
        if s.thread_id != t.tid {
            fail(l, "threads:id-or-order", format!("call stack {i} has id {}, thread list entry {i} has {}", s.thread_id, t.tid));
        }
        let skipped = dump_tid == Some(t.tid);
        if skipped != (s.info == CallStackInfo::DumpThreadSkipped) {
            fail(l, "threads:dump-thread-skip", format!("thread {i} (id {}): info {:?}, dump-writer id {dump_tid:?}", t.tid, s.info));
        }
        if skipped {
            if !s.frames.is_empty() {
                fail(l, "threads:dump-thread-walked", format!("dump-writer thread {i} has {} frames", s.frames.len()));
            }
            continue;
        }
        if s.thread_name.as_deref() != m.name_of(t.tid) {
            fail(l, "threads:name", format!("thread {i} (id {}): name {:?}, names stream says {:?}", t.tid, s.thread_name, m.name_of(t.tid)));
        }
        // which context starts the walk
        let is_target = Some(t.tid) == target;
        let thread_ctx = if m.thread_ctx_readable(i) { Some((m.cpu.mask(t.ip), m.cpu.mask(t.sp))) } else { None };
        let exc_ctx = if m.exc_ctx_readable() { m.exc.as_ref().map(|x| (m.cpu.mask(x.ctx_ip), m.cpu.mask(x.ctx_sp))) } else { None };
        let got = s.frames.first().map(|f| (f.context.get_instruction_pointer(), f.context.get_stack_pointer()));
        let reported = st.requesting_thread == Some(i);
        let ok = if !is_target {
            got == thread_ctx
        } else if reported {
            got == exc_ctx.or(thread_ctx)
        } else {
            // a further thread carrying the same id as the requesting one (duplicate ids): the
            // statement fixes the context of the requesting thread only
            got == exc_ctx.or(thread_ctx) || got == thread_ctx
        };
        if !ok {
            let which = if is_target && reported { "requesting-thread-context" } else { "thread-context" };
            fail(l, &format!("frame0:{which}"), format!("thread {i} (id {}): frame 0 (ip, sp) = {got:x?}; exception context {exc_ctx:x?}, thread context {thread_ctx:x?}, requesting = {reported}", t.tid));
        }
        match (got, &s.info) {
            (None, CallStackInfo::MissingContext) => l.outcome("thread:no-context"),
            (Some(_), CallStackInfo::Ok) => {
                if s.frames[0].trust != FrameTrust::Context {
                    fail(l, "frame0:trust", format!("thread {i}: frame 0 trust {:?}", s.frames[0].trust));
                }
            }
            (g, i2) => fail(l, "threads:info", format!("thread {i}: frames present = {}, info {i2:?}", g.is_some())),
        }
    }
    // ---- requesting thread
    let cands = m.requesting_candidates();
    match st.requesting_thread {
        None => {
            if !cands.is_empty() {
                fail(l, "requesting-thread:missing", format!("no requesting thread, but thread(s) {cands:?} carry the id {target:?} named by {}", if m.exc.is_some() { "the exception record" } else { "the Breakpad info" }));
            }
            l.outcome("requesting:none");
        }
        Some(i) => {
            if !cands.contains(&i) {
                let why = if i < m.threads.len() && Some(m.threads[i].tid) == m.req_tid() && m.exc.is_some() { "breakpad-info-preferred-over-exception-record" } else { "wrong-thread" };
                fail(l, &format!("requesting-thread:{why}"), format!("requesting thread {i}, expected one of {cands:?} (exception tid {:?}, Breakpad requesting tid {:?}, dump-writer tid {dump_tid:?})", m.exc.as_ref().map(|x| x.tid), m.req_tid()));
            }
            l.outcome(if m.exc.is_some() { "requesting:by-exception-record" } else { "requesting:by-breakpad-info" });
            if m.exc_ctx_readable() {
                l.outcome("requesting:walk-from-exception-context");
            } else if i < m.threads.len() && m.thread_ctx_readable(i) {
                l.outcome("requesting:walk-from-thread-context");
            } else {
                l.outcome("requesting:no-frames");
            }
        }
    }
    // ---- crash reason and address
    match (&m.exc, &st.exception_info) {
        (Some(x), Some(info)) => {
            let want_a = expected_crash_address(m.os(), m.cpu, x);
            if info.address.0 != want_a {
                let why = if m.cpu.bits() == Some(32) && info.address.0 > 0xffff_ffff {
                    "not-zero-extended"
                } else if info.address.0 == m.cpu.mask(x.info[1]) && want_a != info.address.0 && m.cpu.mask(x.address) != info.address.0 {
                    "parameter-1-used"
                } else {
                    "exception-address-used"
                };
                fail(l, &format!("crash-address:{why}"), format!("crash address {:#x}, expected {want_a:#x} (os {:?}, code {:#x}, {} parameters, exception_address {:#x}, information[1] {:#x})", info.address.0, m.os(), x.code, x.nparams, x.address, x.info[1]));
            }
            let want_r = expected_reason(m.os(), m.cpu, x);
            let got_r = info.reason.to_string();
            if !want_r.accepts(&got_r) {
                let fam: String = format!("{:?}", info.reason).chars().take_while(|c| c.is_alphanumeric()).collect();
                fail(l, &format!("crash-reason:{:?}:{fam}", m.os()), format!("crash reason {got_r:?}, expected {want_r:?} (code {:#x}, flags {:#x}, {} parameters, information[0] {:#x}, cpu {:?})", x.code, x.flags, x.nparams, x.info[0], m.cpu));
            }
            let fam: String = format!("{:?}", info.reason).chars().take_while(|c| c.is_alphanumeric()).collect();
            l.outcome(&format!("reason:{fam}"));
            l.distinct(&("reason", got_r, want_a, m.cpu.bits()));
        }
        (None, None) => l.outcome("reason:no-exception"),
        (a, b) => fail(l, "exception:presence", format!("exception stream present = {}, exception_info present = {}", a.is_some(), b.is_some())),
    }
    // ---- system
    let pw = match m.cpu.bits() {
        Some(32) => PointerWidth::Bits32,
        Some(_) => PointerWidth::Bits64,
        None => PointerWidth::Unknown,
    };
    if st.system_info.cpu.pointer_width() != pw || st.system_info.cpu.to_string() != m.cpu.json_name() {
        fail(l, "system:cpu", format!("cpu {} for architecture {:?}", st.system_info.cpu, m.cpu));
    }
    if m.os().json_name().is_some_and(|n| st.system_info.os.long_name() != n) || (m.os() == OsK::Unknown && !matches!(st.system_info.os, minidump::system_info::Os::Unknown(v) if v == m.platform_id)) {
        fail(l, "system:os", format!("os {:?} for platform id {:#x}", st.system_info.os, m.platform_id));
    }
    // ---- modules, unloaded modules
    let got_mods: Vec<(u64, u32, &str)> = st.modules.iter().map(|x| (x.raw.base_of_image, x.raw.size_of_image, x.name.as_str())).collect();
    let want_mods: Vec<(u64, u32, &str)> = m.modules.iter().map(|x| (x.base, x.size, x.name.as_str())).collect();
    if got_mods != want_mods {
        fail(l, "modules:list", format!("modules {got_mods:x?}, stream has {want_mods:x?}"));
    }
    let got_un: Vec<(u64, u32, &str)> = st.unloaded_modules.iter().map(|x| (x.raw.base_of_image, x.raw.size_of_image, x.name.as_str())).collect();
    let want_un: Vec<(u64, u32, &str)> = m.unloaded.iter().map(|x| (x.base, x.size, x.name.as_str())).collect();
    if got_un != want_un {
        fail(l, "unloaded-modules:list", format!("unloaded modules {got_un:x?}, stream has {want_un:x?}"));
    }
    for (i, s) in st.threads.iter().enumerate() {
        for (k, f) in s.frames.iter().enumerate() {
            let a = f.instruction;
            let owner = m.modules.iter().find(|x| x.base <= a && a - x.base < x.size as u64);
            match (owner, &f.module) {
                (Some(o), Some(g)) if g.raw.base_of_image == o.base && g.name == o.name => {}
                (None, None) => {}
                (o, g) => fail(l, "frames:module", format!("thread {i} frame {k} at {a:#x}: module {:?}, module list says {:?}", g.as_ref().map(|g| &g.name), o.map(|o| &o.name))),
            }
            let mut want: BTreeMap<String, BTreeSet<u64>> = BTreeMap::new();
            if owner.is_none() {
                for u in &m.unloaded {
                    if u.base <= a && a - u.base < u.size as u64 {
                        want.entry(u.name.clone()).or_default().insert(a - u.base);
                    }
                }
            }
            if f.unloaded_modules != want {
                fail(l, "frames:unloaded-module-offsets", format!("thread {i} frame {k} at {a:#x}: unloaded modules {:x?}, brute force over the stream gives {want:x?}", f.unloaded_modules));
            }
            if !want.is_empty() {
                l.outcome(if want.values().any(|s| s.len() > 1) { "unloaded:several-offsets" } else { "unloaded:hit" });
                if want.len() > 1 {
                    l.outcome("unloaded:several-names");
                }
                // shape of the covering set in (base, end) order: is a non-covering module sorted between two covering ones?
                let mut sorted: Vec<(u64, u64)> = m.unloaded.iter().map(|u| (u.base, u.base + u.size as u64)).collect();
                sorted.sort_unstable();
                let cov: Vec<bool> = sorted.iter().map(|r| r.0 <= a && a < r.1).collect();
                let (first, last) = (cov.iter().position(|c| *c).unwrap(), cov.iter().rposition(|c| *c).unwrap());
                if cov[first..=last].iter().any(|c| !*c) {
                    l.outcome("unloaded:covering-set-not-contiguous-in-address-order");
                }
            }
        }
    }
    // ---- process id and times
    let status_pid: Option<Vec<Option<u32>>> = m.status.as_ref().map(|s| {
        let text = String::from_utf8_lossy(s);
        match text.lines().find_map(|ln| ln.strip_prefix("Pid:")) {
            Some(v) => match v.trim().parse::<u32>() {
                Ok(p) => vec![Some(p)],
                // the documents do not say what an unparsable Pid line yields
                Err(_) => vec![None, Some(0)],
            },
            None => vec![None, Some(0)],
        }
    });
    let accept: Vec<Option<u32>> = match (&m.misc, status_pid) {
        (Some(mi), None) => vec![mi.pid],
        (Some(mi), Some(sp)) => {
            if mi.pid.is_some() {
                vec![mi.pid]
            } else {
                // misc info present but without a process id, status stream present: "misc info
                // else status" is read either way
                let mut v = vec![None];
                v.extend(sp);
                v
            }
        }
        (None, Some(sp)) => sp,
        (None, None) => vec![None],
    };
    if !accept.contains(&st.process_id) {
        fail(l, "process-id", format!("process id {:?}, expected one of {accept:?} (misc info {:?}, status stream {:?})", st.process_id, m.misc, m.status.as_ref().map(|s| String::from_utf8_lossy(s).into_owned())));
    }
    l.outcome(match (&m.misc, &m.status) {
        (Some(mi), _) if mi.pid.is_some() => "pid:from-misc-info",
        (None, Some(_)) => "pid:from-linux-status",
        _ => "pid:none",
    });
    let want_ct = m.misc.as_ref().and_then(|mi| mi.create_time).map(|t| SystemTime::UNIX_EPOCH + Duration::from_secs(t as u64));
    if st.process_create_time != want_ct {
        fail(l, "process-create-time", format!("create time {:?}, misc info says {want_ct:?}", st.process_create_time));
    }
    if st.time != SystemTime::UNIX_EPOCH + Duration::from_secs(HEADER_TIME) {
        fail(l, "dump-time", format!("time {:?}, header says {HEADER_TIME}", st.time));
    }
}

fn space(g: Gen) -> Space {
    let g2 = g.clone();
    Space::new(
        g.name,
        g.len,
        move |idx, l| {
            let m = (g2.model)(idx);
            l.eval();
            match process_model(&m) {
                Proc::Ok(st) => {
                    check_index(&m, &st, l);
                    // distinct non-trivial case: the observable index shape
                    let shape: Vec<(u32, usize, bool)> = st.threads.iter().map(|t| (t.thread_id, t.frames.len().min(1), t.info == CallStackInfo::DumpThreadSkipped)).collect();
                    l.distinct(&(g2.name, shape, st.requesting_thread, st.exception_info.as_ref().map(|i| (i.reason.to_string(), i.address.0)), st.process_id, m.cpu, m.platform_id));
                }
                Proc::ProcessErr(e) => l.violation("c14:process:error", format!("processing a well-formed generated dump failed: {e}"), json!({"model": m.summary()})),
                Proc::ReadErr(e) => panic!("c14 generator produced an unreadable dump: {e} ({:?})", m),
                Proc::Panic(p) => l.panic_violation(&p, json!({"model": m.summary()})),
            }
        },
        g.describe(),
    )
}

/// The walk that starts from a context continues in the memory that context's stack pointer
/// lies in: every thread's call stack has the frames its starting region encodes.
fn check_walks(sm: &StackM, st: &ProcessState, l: &mut Local) {
    let d = || json!({"model": sm.summary()});
    if st.threads.len() != sm.model.threads.len() {
        return; // reported by check_index
    }
    for (i, s) in st.threads.iter().enumerate() {
        let (which, loc, r) = sm.start_of(i);
        let region = &sm.regions[r];
        let place = if loc == SpLoc::Own { "sp-in-own-stack" } else { "sp-in-another-region" };
        let got0 = s.frames.first().map(|f| f.context.get_stack_pointer());
        if got0 != Some(region.sp) {
            continue; // the walk did not start where the model says: reported by check_index (frame0:*)
        }
        l.outcome(&format!("walk:{which}:{place}"));
        l.distinct(&("walk", which, format!("{loc:?}"), sm.layout, sm.model.cpu, region.returns.len(), sm.own[i] == r));
        let want = 1 + region.returns.len();
        if s.frames.len() != want {
            l.violation(
                format!("c14:walk:frame-count:{which}:{place}"),
                format!(
                    "thread {i} (id {}): {} frame(s); its walk starts from the {which} with sp {:#x} in the region at {:#x} ({loc:?}; the thread's stack descriptor names the region at {:#x}), which encodes {} caller(s) {:x?} ({:?} layout)",
                    s.thread_id,
                    s.frames.len(),
                    region.sp,
                    region.base,
                    sm.regions[sm.own[i]].base,
                    region.returns.len(),
                    region.returns,
                    sm.layout
                ),
                d(),
            );
            continue;
        }
        for (k, f) in s.frames.iter().skip(1).enumerate() {
            let got = (f.context.get_instruction_pointer(), f.context.get_stack_pointer());
            let exp = (region.returns[k], region.caller_sps[k]);
            if got != exp {
                l.violation(
                    format!("c14:walk:caller:{which}:{place}"),
                    format!("thread {i} (id {}): caller frame {} has (return address, sp) = {got:x?}, the region at {:#x} the {which} points into encodes {exp:x?} ({:?} layout)", s.thread_id, k + 1, region.base, sm.layout),
                    d(),
                );
                break;
            }
        }
    }
}

fn stack_space(g: StackGen) -> Space {
    let g2 = g.clone();
    let g3 = g.clone();
    Space::new(
        g.name,
        g.len,
        move |idx, l| {
            let sm = (g2.model)(idx);
            l.eval();
            match process_bytes(&build_stacks(&sm), &[]) {
                Proc::Ok(st) => {
                    check_index(&sm.model, &st, l);
                    check_walks(&sm, &st, l);
                }
                Proc::ProcessErr(e) => l.violation("c14:process:error", format!("processing a well-formed generated dump failed: {e}"), json!({"model": sm.summary()})),
                Proc::ReadErr(e) => panic!("c14 generator produced an unreadable dump: {e} ({:?})", sm),
                Proc::Panic(p) => l.panic_violation(&p, json!({"model": sm.summary()})),
            }
        },
        move |idx| json!({"class": g3.name, "model": (g3.model)(idx).summary()}),
    )
}

fn main() {
    run_check("C14", |ctx| {
        let mut def = CheckDef::new(
            "C14",
            "exploration",
            "bounded-exhaustive differential check: every dump of three product spaces is generated with minidump-synth, processed through the public end-to-end path and compared field by field with an index model computed from the generator parameters. index = thread-id pattern (7, incl. duplicates/gaps/empty) x exception thread id (6, incl. absent/missing/dump-writer) x Breakpad info (6) x exception context {absent, readable, garbage} x thread context readability (3) x 12 CPU kinds x 12 OS ids (quick: one record of the OS's menu per case, rotating; thorough: 16); reason = 12 OS ids x 12 CPUs x the whole per-OS exception-record menu x 2 addresses; proc = misc-info flags (5) x Linux status (4) x unloaded-module layouts (4) x module lists (3) x 3 CPUs x thread lists of 1/4/32; unloaded-overlap = every ordered list of 3 unloaded modules with (base, size) on the grid {0,0x1000,0x2000} x {0x800,0x1000,0x4000} (thorough: 4 bases x 4 sizes) x 3 name patterns (all different, first = last, all equal) x {no, one} loaded module inside the window, and every ordered list of 4 unloaded modules on the grid {0,0x1000,0x2000} x {0x800,0x4000} (thorough: 3 x 3) x 3 name patterns (one name at two and at three ranges); ranges nest, overlap, coincide, touch and lie apart in every stream order, and each dump has one thread (frame 0) at every range's base-1, base, middle, last byte and end, whose per-frame unloaded-module offsets must equal the brute-force filter over the stream; unloaded-frames = one thread whose frame-pointer chain of 5 records returns through addresses in no loaded module but in several overlapping unloaded ones (3 CPUs x 3 OS x 4 strides): every frame has its own set; stack-regions = two threads, each with its own stack region and an extra region of the memory list that no stack descriptor names and a region that begins exactly where its own region ends (sp = one past the end of the stack descriptor) (0x400 bytes each, every region encoding a different number 1..3 of callers with its own return addresses inside the loaded module) x exception {absent, names thread 0 / thread 1 with the sp of its context in the thread's own stack / the extra region / the other thread's stack} (7) x sp of thread 0's own context in {own, extra, other thread's} (3) x the same for thread 1 (3) x depth rotation (3) x memory-list order {stacks first, extras first} (2) x {frame-pointer chain on amd64, x86, arm64; return addresses between zero words, no frame pointer, on amd64, x86} (5) x OS {Windows, Linux, Mac} (3): besides the index oracle, every call stack must have exactly the frames that the region its starting context (the exception's for the requesting thread, else the thread's) points into encodes - frame count, and (return address, stack pointer) of every caller frame. distinct_nontrivial = distinct observed (thread shape, requesting thread, reason, address, pid, cpu, os) tuples.",
        );
        def.assumptions = vec![
            "duplicate thread ids: the requesting thread may be any non-dump-writer thread carrying the named id; further threads with that id may start from either context; names are given once per distinct id".into(),
            "the name of the skipped dump-writer thread is not compared (the skipped stack carries no name)".into(),
            "error-name tables of minidump_common::errors are read as data from their source text; the case analysis (refinement by parameter count, access type, flags, CPU family, OS) is re-implemented".into(),
            "EXC_RESOURCE / EXC_GUARD: family and type are checked, the decoded detail text after them is not re-derived".into(),
            "Mac refinements on CPUs outside {arm64, ppc, x86, amd64} (32-bit ARM, ppc64): refined or general rendering both accepted where a sibling table knows the flag".into(),
            "misc info present without a process id while a Linux status stream exists, and unparsable/missing Pid lines: None, 0 or the status pid accepted as documented nowhere".into(),
            "stack-regions: a frame-pointer chain is read by the convention documented in the unwinders (caller ip = *(fp + word), caller fp = *fp, caller sp = fp + 2 words; the chain ends at a record [0][0]); in the scan layout every non-zero word above sp is a return address into the loaded module and the frame pointer is 0, so frame-pointer recovery and scanning cannot disagree about the callers; the trust of the caller frames is not compared".into(),
            "kept out of the alphabet (they belong to C03): /proc limits streams, memory regions ending at 2^64-1, rsp < 8".into(),
        ];
        def.extra.insert("bounds".into(), json!({"threads": "0..4 and 32", "cpus": 12, "os_ids": 12, "tier": ctx.tier.name()}));
        def.spaces = vec![space(gen_reason(ctx.tier)), space(gen_proc(ctx.tier)), space(gen_index(ctx.tier)), space(gen_unloaded_overlap(ctx.tier)), space(gen_unloaded_frames(ctx.tier)), stack_space(gen_stack_regions(ctx.tier))];
        def
    })
}
