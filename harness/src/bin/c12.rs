//! C12 — a module's symbols are located once, however concurrent lookups interleave.
//! Engine E2 (vh::sched): every poll / IO-completion / bounded-spurious-poll interleaving of
//! 2..4 tasks sharing one REAL `Symbolizer` over a scripted mock supplier.
use breakpad_symbols::*;
use std::cell::RefCell;
use std::collections::{BTreeMap, BTreeSet, HashSet};
use std::rc::Rc;
use std::sync::{Arc, Mutex};
use vh::sched::{self, Execution, ExploreStats, Io, System};
use vh::*;

const SYM_OK: &[u8] = b"MODULE Linux x86_64 000000000000000000000000000000000 mod\nFUNC 1000 10 0 fn_x\nSTACK CFI INIT 1000 10 .cfa: $rsp 8 + .ra: .cfa -8 + ^\n";

#[derive(Clone, Debug, PartialEq, Eq, Hash, PartialOrd, Ord)]
struct Cfg {
    /// per task: sequence of (op, key); op 0 = fill_symbol, 1 = walk_frame, 2 = get_file_path
    tasks: Vec<Vec<(u8, u8)>>,
    susp: usize,
    /// per key: 0 Ok, 1 NotFound, 2 ParseError
    answers: Vec<u8>,
    spurious: usize,
    /// explore only the subtree below these first choices (None = whole tree)
    part: Option<Vec<usize>>,
}
impl Cfg {
    fn json(&self) -> Value {
        let opn = ["fill_symbol", "walk_frame", "get_file_path"];
        json!({
            "tasks": self.tasks.iter().map(|t| t.iter().map(|(o, k)| format!("{}(mod{})", opn[*o as usize], k)).collect::<Vec<_>>()).collect::<Vec<_>>(),
            "supplier_suspensions": self.susp,
            "answers": self.answers.iter().map(|a| ["Ok", "NotFound", "ParseError", "MissingDebugFileOrId", "LoadError"][*a as usize]).collect::<Vec<_>>(),
            "spurious_poll_budget": self.spurious,
            "subtree": self.part,
        })
    }
}

#[derive(Default)]
struct Obs {
    calls: Vec<u8>,
    file_calls: Vec<u8>,
    /// per task: (op, key, result)
    results: Vec<Vec<(u8, u8, String)>>,
}

struct Mock {
    io: Io,
    obs: Arc<Mutex<Obs>>,
    susp: usize,
    answers: Vec<u8>,
}
fn key_of(module: &(dyn Module + Sync)) -> u8 {
    if module.debug_identifier().is_some_and(|d| !d.is_nil()) {
        return 3;
    }
    let f = module.code_file().to_string();
    if f.contains("\\other\\") {
        return 4;
    }
    f.rsplit('\\').next().unwrap_or("").trim_start_matches("mod").trim_end_matches(".dll").parse().expect("mock key")
}
#[async_trait::async_trait]
impl SymbolSupplier for Mock {
    async fn locate_symbols(&self, module: &(dyn Module + Sync)) -> Result<LocateSymbolsResult, SymbolError> {
        let k = key_of(module);
        self.obs.lock().unwrap().calls.push(k);
        for i in 0..self.susp {
            sched::suspend(&self.io, &format!("locate_symbols(mod{k})#{i}")).await;
        }
        match self.answers[k as usize] {
            0 => Ok(LocateSymbolsResult { symbols: SymbolFile::from_bytes(SYM_OK).expect("mock symbols parse"), extra_debug_info: None }),
            1 => Err(SymbolError::NotFound),
            3 => Err(SymbolError::MissingDebugFileOrId),
            4 => Err(SymbolError::LoadError(std::io::Error::new(std::io::ErrorKind::PermissionDenied, "mock"))),
            _ => Err(SymbolError::ParseError("mock", 7)),
        }
    }
    async fn locate_file(&self, module: &(dyn Module + Sync), _k: FileKind) -> Result<std::path::PathBuf, FileError> {
        let k = key_of(module);
        self.obs.lock().unwrap().file_calls.push(k);
        if self.susp > 0 {
            sched::suspend(&self.io, &format!("locate_file(mod{k})")).await;
        }
        Err(FileError::NotFound)
    }
}

/// minimal FrameWalker: amd64-like callee with rsp readable stack
struct Walker {
    cfa: Option<u64>,
    ra: Option<u64>,
}
impl FrameWalker for Walker {
    fn get_instruction(&self) -> u64 {
        0x1005
    }
    fn has_grand_callee(&self) -> bool {
        false
    }
    fn get_grand_callee_parameter_size(&self) -> u32 {
        0
    }
    fn get_register_at_address(&self, address: u64) -> Option<u64> {
        Some(address ^ 0x5555)
    }
    fn get_callee_register(&self, name: &str) -> Option<u64> {
        (name == "rsp" || name == "$rsp").then_some(0x8000)
    }
    fn set_caller_register(&mut self, _name: &str, _val: u64) -> Option<()> {
        Some(())
    }
    fn clear_caller_register(&mut self, _name: &str) {}
    fn set_cfa(&mut self, val: u64) -> Option<()> {
        self.cfa = Some(val);
        Some(())
    }
    fn set_ra(&mut self, val: u64) -> Option<()> {
        self.ra = Some(val);
        Some(())
    }
}

/// keys 0, 1: unrelated modules. key 2: the TWIN of key 0 — same debug file and debug id, another
/// code file (the same binary under a second name). It is a distinct module: it must be located by
/// its own supplier call and get its own stats entry.
/// key 3: ANOTHER BUILD of key 0 — same code file, code id and debug file, a different debug id (a DLL
/// replaced on disk while the process runs). Also a distinct module.
/// key 5: a module with no identifier at all (only a code file).
/// key 4: a file of key 0's NAME in another directory, with the same debug file and no identifiers (two
/// unrelated libraries that happen to share a file name). Also a distinct module.
fn leaf_key(k: u8) -> u8 {
    if k == 3 || k == 4 {
        0
    } else {
        k
    }
}
fn module(k: u8) -> SimpleModule {
    if k == 5 {
        // a module without any identifier (no debug file, no debug id, no code id): still one module
        return SimpleModule::from_basic_info(None, None, Some("C:\\dir\\mod5.dll".into()), None);
    }
    if k == 4 {
        return SimpleModule::from_basic_info(Some("mod0.pdb".into()), Some(debugid::DebugId::nil()), Some("C:\\other\\mod0.dll".into()), None);
    }
    if k == 3 {
        let id: debugid::DebugId = "07070707-0707-0707-0707-070707070707-3".parse().expect("debug id");
        return SimpleModule::from_basic_info(Some("mod0.pdb".into()), Some(id), Some("C:\\dir\\mod0.dll".into()), None);
    }
    let dbg = if k == 2 { 0 } else { k };
    SimpleModule::from_basic_info(Some(format!("mod{dbg}.pdb")), Some(debugid::DebugId::nil()), Some(format!("C:\\dir\\mod{k}.dll")), None)
}

struct Built {
    sym: Arc<Symbolizer>,
    obs: Arc<Mutex<Obs>>,
}
fn build(cfg: &Cfg) -> (System, Built) {
    let io: Io = Default::default();
    let obs: Arc<Mutex<Obs>> = Default::default();
    obs.lock().unwrap().results = vec![vec![]; cfg.tasks.len()];
    let sym = Arc::new(Symbolizer::new(Mock { io: io.clone(), obs: obs.clone(), susp: cfg.susp, answers: cfg.answers.clone() }));
    let mut tasks: Vec<sched::Task> = vec![];
    let progress: Rc<RefCell<Vec<usize>>> = Rc::new(RefCell::new(vec![0; cfg.tasks.len()]));
    for (t, script) in cfg.tasks.iter().enumerate() {
        let sym = sym.clone();
        let script = script.clone();
        let obs = obs.clone();
        let progress = progress.clone();
        tasks.push(Box::pin(async move {
            for (op, k) in script {
                let m = module(k);
                let r = match op {
                    0 => {
                        let mut f = SimpleFrame::with_instruction(0x1005);
                        match sym.fill_symbol(&m, &mut f).await {
                            Ok(()) => format!("ok:{:?}", f.function),
                            Err(_) => "err".to_string(),
                        }
                    }
                    1 => {
                        let mut w = Walker { cfa: None, ra: None };
                        match sym.walk_frame(&m, &mut w).await {
                            Some(()) => format!("some:{:?}:{:?}", w.cfa, w.ra),
                            None => "none".to_string(),
                        }
                    }
                    _ => match sym.get_file_path(&m, FileKind::Binary).await {
                        Ok(_) => "path".to_string(),
                        Err(_) => "nofile".to_string(),
                    },
                };
                obs.lock().unwrap().results[t].push((op, k, r));
                progress.borrow_mut()[t] += 1;
            }
        }));
    }
    let (o2, s2, io2) = (obs.clone(), sym.clone(), io.clone());
    let fingerprint = Box::new(move || {
        let o = o2.lock().unwrap();
        let ps = s2.pending_stats();
        let iot = io2.lock().unwrap();
        let iov: Vec<(bool, bool)> = iot.slots.iter().map(|s| (s.done, s.waker.is_some())).collect();
        hash_of(&(&o.calls, &o.file_calls, &o.results, ps.symbols_requested, ps.symbols_processed, iov))
    });
    (System { tasks, io, fingerprint }, Built { sym, obs })
}

/// expected result string of (op, key) given the scripted answer
fn expected(op: u8, answer: u8) -> &'static str {
    match (op, answer) {
        (0, 0) => "ok:Some(\"fn_x\")",
        (0, _) => "err",
        (1, 0) => "some:Some(32776):Some(54613)", // cfa = 0x8000+8, ra = mem[cfa-8] = 0x8000 ^ 0x5555 = 0xd555
        (1, _) => "none",
        _ => "nofile",
    }
}

/// Check one complete execution. Returns Some((signature, what)) on violation.
fn check(cfg: &Cfg, x: &Execution, b: &Built) -> Option<(String, String)> {
    if x.deadlock {
        return Some(("c12:deadlock".into(), "unfinished tasks but no woken task and no pending IO (deadlock / lost wake-up)".into()));
    }
    let o = b.obs.lock().unwrap();
    let wanted: BTreeSet<u8> = cfg.tasks.iter().flatten().filter(|(op, _)| *op < 2).map(|(_, k)| *k).collect();
    let mut per_key: BTreeMap<u8, usize> = BTreeMap::new();
    for c in &o.calls {
        *per_key.entry(*c).or_insert(0) += 1;
    }
    if let Some((k, n)) = per_key.iter().find(|(_, n)| **n > 1) {
        return Some(("c12:supplier-asked-more-than-once".into(), format!("locate_symbols called {n} times for module mod{k} (call log {:?})", o.calls)));
    }
    let asked: BTreeSet<u8> = per_key.keys().copied().collect();
    if asked != wanted {
        return Some(("c12:supplier-call-set".into(), format!("modules asked of the supplier {asked:?} != modules looked up {wanted:?}")));
    }
    for (t, script) in cfg.tasks.iter().enumerate() {
        if o.results[t].len() != script.len() {
            return Some(("c12:lost-request".into(), format!("task {t} completed {} of {} lookups", o.results[t].len(), script.len())));
        }
        for (i, (op, k)) in script.iter().enumerate() {
            let (rop, rk, r) = &o.results[t][i];
            let want = expected(*op, cfg.answers[*k as usize]);
            if (rop, rk) != (op, k) || r != want {
                return Some(("c12:outcome-differs".into(), format!("task {t} lookup {i} (op {op}, mod{k}) observed {r:?}, every requester must observe {want:?}")));
            }
        }
    }
    let ps = b.sym.pending_stats();
    if ps.symbols_requested != wanted.len() as u64 || ps.symbols_processed != wanted.len() as u64 {
        return Some(("c12:pending-counters".into(), format!("pending_stats requested={} processed={} but {} distinct modules were asked for", ps.symbols_requested, ps.symbols_processed, wanted.len())));
    }
    let st = b.sym.stats();
    let names: BTreeSet<String> = st.keys().cloned().collect();
    let want_names: BTreeSet<String> = wanted.iter().map(|k| format!("mod{}.dll", leaf_key(*k))).collect();
    if names != want_names {
        return Some(("c12:stats-entries".into(), format!("stats() keys {names:?} != {want_names:?}")));
    }
    for k in &wanted {
        // keys 0, 3 and 4 all have the file name mod0.dll: they share one stats entry (keyed by leaf name), whose
        // flags come from whichever was located last — not compared when both were asked for
        if wanted.iter().filter(|w| leaf_key(**w) == leaf_key(*k)).count() > 1 {
            continue;
        }
        let s = &st[&format!("mod{}.dll", leaf_key(*k))];
        let a = cfg.answers[*k as usize];
        let want = match a {
            0 => (true, false),
            1 | 3 | 4 => (false, false),
            _ => (true, true),
        };
        if (s.loaded_symbols, s.corrupt_symbols) != want {
            return Some(("c12:stats-flags".into(), format!("stats()[mod{k}.dll] loaded={} corrupt={} for answer {a}", s.loaded_symbols, s.corrupt_symbols)));
        }
    }
    None
}

fn exec_one(cfg: &Cfg, prefix: &[usize]) -> (Execution, Option<(String, String)>, String) {
    let (sys, b) = build(cfg);
    let sym = b.sym.clone();
    let mut step_violation: Option<(String, String)> = None;
    let x = sched::run(sys, prefix, cfg.spurious, 10_000, |_| {
        let ps = sym.pending_stats();
        if ps.symbols_processed > ps.symbols_requested && step_violation.is_none() {
            step_violation = Some(("c12:pending-counters-step".into(), format!("processed {} > requested {} mid-run", ps.symbols_processed, ps.symbols_requested)));
        }
    });
    let v = step_violation.or_else(|| check(cfg, &x, &b));
    let o = b.obs.lock().unwrap();
    let observation = format!("calls={:?} results={:?}", o.calls, o.results);
    (x, v, observation)
}

fn explore_cfg(cfg: &Cfg, l: &mut Local) {
    let mut stats = ExploreStats::default();
    let mut states: HashSet<u64> = HashSet::new();
    let mut outcomes: BTreeSet<String> = BTreeSet::new();
    let mut violation: Option<(String, String, Vec<usize>, String)> = None;
    let mut n = 0u64;
    let prefix = cfg.part.clone().unwrap_or_default();
    // a partition prefix that does not exist in this config's tree is an empty subtree
    for i in 0..prefix.len() {
        let (xi, _, _) = exec_one(cfg, &prefix[..i]);
        assert!(xi.nenabled.len() > i, "c12: execution shorter than the partition prefix");
        if prefix[i] >= xi.nenabled[i] {
            return;
        }
    }
    let mut exec = |p: &[usize]| {
        let (x, v, obs) = exec_one(cfg, p);
        n += 1;
        states.extend(x.fingerprints.iter().copied());
        outcomes.insert(obs.clone());
        // replay determinism: the same schedule must reproduce the same observation
        if n % 1000 == 1 {
            let (x2, _, obs2) = exec_one(cfg, &x.choices);
            assert!(x2.choices == x.choices && x2.fingerprints == x.fingerprints && obs2 == obs, "sched: replay of a schedule is not deterministic");
        }
        let go = v.is_none();
        if let Some((sig, what)) = v {
            violation = Some((sig, what, x.choices.clone(), obs));
        }
        (x, go)
    };
    sched::explore(prefix, None, &mut stats, &mut exec);
    l.evals(stats.schedules);
    l.count("schedules", stats.schedules);
    l.count("transitions", stats.steps);
    l.count("states", states.len() as u64);
    l.outcome(&format!("longest-schedule-bucket={}", (stats.max_len / 5) * 5));
    for o in &outcomes {
        l.distinct(&(cfg, o));
    }
    l.outcome(&format!("tasks={} distinct-observations={}", cfg.tasks.len(), outcomes.len().min(9)));
    if let Some((sig, what, schedule, obs)) = violation {
        l.violation(sig, what, json!({"config": cfg.json(), "schedule_choices": schedule, "observation": obs}));
    }
}

fn scripts(ops: &[u8], keys: u8, max_len: usize) -> Vec<Vec<(u8, u8)>> {
    let mut alphabet = vec![];
    for &o in ops {
        for k in 0..keys {
            alphabet.push((o, k));
        }
    }
    let mut out: Vec<Vec<(u8, u8)>> = vec![];
    let mut cur: Vec<Vec<(u8, u8)>> = vec![vec![]];
    for _ in 0..max_len {
        let mut next = vec![];
        for c in &cur {
            for a in &alphabet {
                let mut n = c.clone();
                n.push(*a);
                next.push(n);
            }
        }
        out.extend(next.iter().cloned());
        cur = next;
    }
    out
}
/// all multisets of `t` scripts (task symmetry: tasks are interchangeable)
fn multisets(s: &[Vec<(u8, u8)>], t: usize) -> Vec<Vec<Vec<(u8, u8)>>> {
    fn rec(s: &[Vec<(u8, u8)>], t: usize, from: usize, cur: &mut Vec<Vec<(u8, u8)>>, out: &mut Vec<Vec<Vec<(u8, u8)>>>) {
        if cur.len() == t {
            out.push(cur.clone());
            return;
        }
        for i in from..s.len() {
            cur.push(s[i].clone());
            rec(s, t, i, cur, out);
            cur.pop();
        }
    }
    let mut out = vec![];
    rec(s, t, 0, &mut vec![], &mut out);
    out
}
fn uses_key1(ts: &[Vec<(u8, u8)>]) -> bool {
    ts.iter().flatten().any(|(_, k)| *k == 1)
}

fn configs(tier: Tier) -> Vec<Cfg> {
    let mut v = vec![];
    let mut push = |tasks: &Vec<Vec<(u8, u8)>>, susp: usize, answers: Vec<u8>, spurious: usize, split: usize| {
        if split == 0 {
            v.push(Cfg { tasks: tasks.clone(), susp, answers, spurious, part: None });
        } else {
            // partition the schedule tree by its first two choices (branching is at most `split`)
            for a in 0..split {
                for b in 0..split {
                    v.push(Cfg { tasks: tasks.clone(), susp, answers: answers.clone(), spurious, part: Some(vec![a, b]) });
                }
            }
        }
    };
    let answer_menu = |two: bool| -> Vec<Vec<u8>> {
        if two {
            vec![vec![0, 0], vec![0, 1], vec![2, 0], vec![1, 2]]
        } else {
            vec![vec![0, 0], vec![1, 0], vec![2, 0]]
        }
    };
    // --- 2 tasks, scripts of 1..2 lookups over {fill, walk} x 2 keys, every suspension count 0..2, S in {0,1}
    let s2 = scripts(&[0, 1], 2, 2);
    for ts in multisets(&s2, 2) {
        for susp in 0..=2 {
            for ans in answer_menu(uses_key1(&ts)) {
                for sp in 0..=1 {
                    push(&ts, susp, ans.clone(), sp, 0);
                }
            }
        }
    }
    // --- 2 tasks with the un-cached get_file_path mixed in (1 key)
    let s2f = scripts(&[0, 2], 1, 2);
    for ts in multisets(&s2f, 2) {
        for susp in 1..=2 {
            push(&ts, susp, vec![0, 0], 1, 0);
        }
    }
    // --- twin modules (key 2 shares key 0's debug file and id): 2 and 3 tasks, fill lookups over keys {0, 2}
    let twin_scripts: Vec<Vec<(u8, u8)>> = vec![vec![(0, 0)], vec![(0, 2)], vec![(0, 0), (0, 2)], vec![(0, 2), (0, 0)], vec![(1, 2)]];
    for t in 2..=3 {
        for ts in multisets(&twin_scripts, t) {
            if !ts.iter().flatten().any(|(_, k)| *k == 2) || !ts.iter().flatten().any(|(_, k)| *k == 0) {
                continue;
            }
            for susp in 0..=(if t == 2 { 2 } else { 1 }) {
                push(&ts, susp, vec![0, 0, 1], 1, 0);
                push(&ts, susp, vec![2, 0, 0], 0, 0);
            }
        }
    }
    // --- two builds of one module (key 3 = key 0 with another debug id)
    let build_scripts: Vec<Vec<(u8, u8)>> = vec![vec![(0, 0)], vec![(0, 3)], vec![(0, 0), (0, 3)], vec![(0, 3), (0, 0)], vec![(1, 3)]];
    for t in 2..=3 {
        for ts in multisets(&build_scripts, t) {
            if !ts.iter().flatten().any(|(_, k)| *k == 3) || !ts.iter().flatten().any(|(_, k)| *k == 0) {
                continue;
            }
            for susp in 0..=(if t == 2 { 2 } else { 1 }) {
                push(&ts, susp, vec![0, 0, 0, 1], 1, 0);
                push(&ts, susp, vec![2, 0, 0, 0], 0, 0);
            }
        }
    }
    // --- two files of one name in different directories (key 4 = key 0's file name elsewhere, no identifiers)
    let dir_scripts: Vec<Vec<(u8, u8)>> = vec![vec![(0, 0)], vec![(0, 4)], vec![(0, 0), (0, 4)], vec![(0, 4), (0, 0)], vec![(1, 4)]];
    for t in 2..=3 {
        for ts in multisets(&dir_scripts, t) {
            if !ts.iter().flatten().any(|(_, k)| *k == 4) || !ts.iter().flatten().any(|(_, k)| *k == 0) {
                continue;
            }
            for susp in 0..=(if t == 2 { 2 } else { 1 }) {
                push(&ts, susp, vec![0, 0, 0, 0, 1], 1, 0);
                push(&ts, susp, vec![2, 0, 0, 0, 0], 0, 0);
            }
        }
    }
    // --- a module without identifiers (key 5), alone and next to key 0
    let bare_scripts: Vec<Vec<(u8, u8)>> = vec![vec![(0, 5)], vec![(0, 5), (0, 5)], vec![(1, 5)], vec![(0, 0), (0, 5)], vec![(1, 5), (0, 5), (0, 0)]];
    for t in 1..=3 {
        for ts in multisets(&bare_scripts, t) {
            if ts.iter().map(|t| t.len()).sum::<usize>() > 5 {
                continue;
            }
            for susp in 0..=(if t <= 2 { 2 } else { 1 }) {
                push(&ts, susp, vec![0, 0, 0, 0, 0, 0], 1, 0);
                push(&ts, susp, vec![0, 0, 0, 0, 0, 1], 0, 0);
                push(&ts, susp, vec![1, 0, 0, 0, 0, 2], 0, 0);
            }
        }
    }
    // --- the other two failure kinds a supplier can answer with (no usable identifiers; an I/O error): remembered
    // like any outcome, asked once
    for ts in multisets(&s2, 2) {
        for susp in 0..=1 {
            push(&ts, susp, vec![3, 4], 1, 0);
            push(&ts, susp, vec![4, 3], 0, 0);
        }
    }
    // --- 3 tasks x 1 lookup
    let s31 = scripts(&[0, 1], 2, 1);
    for ts in multisets(&s31, 3) {
        for susp in 0..=2 {
            for ans in answer_menu(uses_key1(&ts)) {
                for sp in 0..=1 {
                    push(&ts, susp, ans.clone(), sp, 0);
                }
            }
        }
    }
    // --- 3 tasks x up to 2 fill lookups over 2 keys, 1 suspension
    let s32 = scripts(&[0], 2, 2);
    for ts in multisets(&s32, 3) {
        push(&ts, 1, vec![0, 1], 1, 0);
    }
    if tier == Tier::Thorough {
        // 3 tasks x up to 2 lookups, 2 suspensions, S = 2 (about 1 M schedules per config: partitioned)
        for ts in multisets(&s32, 3) {
            push(&ts, 2, vec![0, 2], 2, 6);
        }
        // 3 tasks, mixed ops, 1 suspension
        for ts in multisets(&s2, 3) {
            if ts.iter().map(|t| t.len()).sum::<usize>() <= 5 {
                push(&ts, 1, if uses_key1(&ts) { vec![0, 1] } else { vec![0, 0] }, 1, 0);
            }
        }
        // 2 tasks x up to 3 lookups over 3 keys
        let s23 = scripts(&[0], 3, 3);
        for ts in multisets(&s23, 2) {
            push(&ts, 2, vec![0, 1, 2], 1, 0);
        }
        // 4 tasks x 1 lookup
        for ts in multisets(&s31, 4) {
            for susp in 1..=2 {
                push(&ts, susp, if uses_key1(&ts) { vec![0, 1] } else { vec![2, 0] }, 1, 0);
            }
        }
        // 3 suspensions
        for ts in multisets(&s31, 2) {
            push(&ts, 3, vec![0, 1], 2, 0);
        }
    }
    v
}


// ---------------------------------------------------------------------------------------------
// the same promise seen from the whole processor: process_minidump (all threads walked concurrently over one
// symbolizer, nothing dropped by the harness) asks the supplier once per module, and the counters settle.

struct CountingSup {
    delays: Vec<usize>,
    calls: Arc<Mutex<Vec<String>>>,
}
struct SelfWakingDelay(usize);
impl std::future::Future for SelfWakingDelay {
    type Output = ();
    fn poll(mut self: std::pin::Pin<&mut Self>, cx: &mut std::task::Context<'_>) -> std::task::Poll<()> {
        if self.0 == 0 {
            std::task::Poll::Ready(())
        } else {
            self.0 -= 1;
            cx.waker().wake_by_ref();
            std::task::Poll::Pending
        }
    }
}
#[async_trait::async_trait]
impl SymbolSupplier for CountingSup {
    async fn locate_symbols(&self, m: &(dyn Module + Sync)) -> Result<LocateSymbolsResult, SymbolError> {
        let i = {
            let mut c = self.calls.lock().unwrap();
            c.push(m.code_file().to_string());
            c.len() - 1
        };
        SelfWakingDelay(self.delays[i % self.delays.len()]).await;
        if m.code_file().contains("app") {
            Ok(LocateSymbolsResult { symbols: SymbolFile::from_bytes(SYM_OK).expect("symbols"), extra_debug_info: None })
        } else {
            Err(SymbolError::NotFound)
        }
    }
    async fn locate_file(&self, _m: &(dyn Module + Sync), _k: FileKind) -> Result<std::path::PathBuf, FileError> {
        Err(FileError::NotFound)
    }
}
fn poll_to_completion<F: std::future::Future>(f: F) -> F::Output {
    struct Noop;
    impl std::task::Wake for Noop {
        fn wake(self: Arc<Self>) {}
    }
    let w = std::task::Waker::from(Arc::new(Noop));
    let mut cx = std::task::Context::from_waker(&w);
    let mut f = std::pin::pin!(f);
    for _ in 0..1_000_000 {
        if let std::task::Poll::Ready(v) = f.as_mut().poll(&mut cx) {
            return v;
        }
    }
    panic!("harness: process_minidump stays pending under a self-waking supplier");
}
/// dumps: 1..3 threads whose innermost frames lie in module app (symbols) / lib (no symbols) in every combination
fn processor_space() -> Space {
    use vh::procgen::{self, CpuK, Model, ThreadM};
    const MAXD: u64 = 3; // delays 0..2 for each of the first 4 supplier calls
    let radices = [2u64, 2, 3, MAXD, MAXD, MAXD, MAXD];
    let len = product(&radices);
    let lib = procgen::ModM { base: 0x5800_0000, size: 0x10000, name: "c:\\dir\\lib.dll".into() };
    let run = move |idx: u64, l: &mut Local| {
        let d = unrank(idx, &radices);
        let nthreads = d[2] as usize + 1;
        let mut m = Model::new(CpuK::Amd64, 0x8201);
        for t in 0..nthreads {
            let in_lib = [d[0], d[1], (d[0] + d[1]) % 2][t] == 1;
            m.threads.push(ThreadM { tid: t as u32 + 1, ctx_ok: true, ip: if in_lib { lib.base + 0x40 } else { procgen::APP_BASE + 0x1008 }, sp: procgen::STACK_BASE + 0x1000 * t as u64 + 8 });
        }
        m.modules = vec![procgen::app_module(), lib.clone()];
        let bytes = procgen::build(&m);
        let dump = minidump::Minidump::read(&bytes[..]).expect("harness: dump");
        let log = Arc::new(Mutex::new(vec![]));
        let sup = CountingSup { delays: d[3..7].iter().map(|&x| x as usize).collect(), calls: log.clone() };
        let symbolizer = minidump_unwind::Symbolizer::new(sup);
        l.eval();
        let r = guard(|| poll_to_completion(minidump_processor::process_minidump(&dump, &symbolizer)));
        let detail = || json!({"threads": nthreads, "innermost_frames_in_lib": [d[0], d[1]], "supplier_delays": d[3..7]});
        match r {
            Err(p) => {
                if p.msg.contains("harness:") {
                    panic!("{}", p.msg);
                }
                l.panic_violation(&p, detail());
                return;
            }
            Ok(Err(e)) => panic!("harness: process_minidump failed: {e:?}"),
            Ok(Ok(_)) => {}
        }
        let stats = symbolizer.pending_stats();
        let calls = log.lock().unwrap().clone();
        let mut per: BTreeMap<&str, usize> = BTreeMap::new();
        for c in &calls {
            *per.entry(c.as_str()).or_default() += 1;
        }
        let distinct = per.len() as u64;
        l.outcome(&format!("processor: {distinct} module(s) asked for"));
        l.distinct(&("processor", &calls, d[3..7].to_vec()));
        if let Some((m, n)) = per.iter().find(|(_, n)| **n > 1) {
            l.violation("c12:processor:supplier-asked-more-than-once", format!("process_minidump asked the supplier {n} times for {m} (call log {calls:?})"), detail());
        }
        if stats.symbols_requested != stats.symbols_processed || stats.symbols_requested != distinct {
            l.violation("c12:processor:pending-counters", format!("after process_minidump: requested {} processed {} with {distinct} distinct module(s) asked for", stats.symbols_requested, stats.symbols_processed), detail());
        }
    };
    Space::new("process_minidump", len, run, move |idx| json!({"class": "process_minidump", "index": idx}))
}

fn main() {
    run_check("C12", |ctx| {
        let cfgs = Arc::new(configs(ctx.tier));
        let mut def = CheckDef::new(
            "C12",
            "model_checking",
            "stateless DFS (no deviation cap: complete) over every schedule of the hand-rolled single-threaded executor — poll any woken task, complete any pending supplier IO, or (within the spurious budget S) poll an un-woken task — for every configuration: task-symmetric multisets of task scripts over {fill_symbol, walk_frame, get_file_path} x module keys, supplier suspensions 0..k, per-key answers {Ok, NotFound, ParseError}; each schedule is executed on a fresh real Symbolizer. distinct_nontrivial = distinct (configuration, supplier call order + per-task results) observations.",
        );
        def.assumptions = vec![
            "a poll body is atomic (single-threaded executor); real-thread interleavings inside std::sync::Mutex / futures-util primitives are assumed linearizable and are not explored".into(),
            "cancellation (dropping a lookup future mid-way) is excluded by the property".into(),
            "state fingerprints are only counted, never used for pruning (the futures-util mutex keeps its waiter list private)".into(),
        ];
        let c2 = cfgs.clone();
        let c3 = cfgs.clone();
        def.spaces.push(
            Space::new("configs", cfgs.len() as u64, move |i, l| explore_cfg(&c2[i as usize], l), move |i| c3[i as usize].json())
                .chunked(1)
                .wall(600_000),
        );
        def.spaces.push(processor_space());
        def.finish = Some(Box::new(|total, extra| {
            let g = |k: &str| total.counters.get(k).copied().unwrap_or(0);
            extra.insert("states".into(), json!(g("states").max(1)));
            extra.insert("transitions".into(), json!(g("transitions").max(1)));
            extra.insert("traces_validated_against_impl".into(), json!(g("schedules")));
            extra.insert("note".into(), json!("every schedule is executed on the implementation itself (there is no separate model); states = distinct explorer fingerprints (per-task results, IO table, call log, pending counters) summed over configurations"));
        }));
        def
    })
}
