//! C01 — reading a minidump is total: no panic, hang or runaway allocation on any bytes.
//!
//! Bounded-exhaustive fault enumeration around structured seeds, every case executed on the real
//! reader through `vh::exercise::exercise` (open, every stream, every query, every print) inside
//! monitored sandbox workers (panic guard per operation, per-case wall budget, hard cap on live
//! heap bytes) plus a per-case allocation budget `64 KiB + 64*len + len^2/4` on the peak of live
//! bytes above the case's baseline.
//!
//! Spaces:
//!  * `mut1`   one deviation: every even offset x width {2,4,8} x boundary/self-referential value
//!             menu, over every synthetic seed (LE and BE); thorough: also the corpus files;
//!  * `trunc`  every prefix length of every seed;
//!  * `fanin`  k references sharing one child of size s (k, s in {1,8,64,512}) for every
//!             list-of-references structure;
//!  * `tiny`   every byte string of length <= 2 (thorough: 3) as the content of every text-like
//!             stream, <= 1 as the content of every other stream type, <= 2 as a whole file;
//!  * `mut2`   (thorough) two simultaneous deviations on structural words.
use std::sync::Arc;
use test_assembler::Endian;
use vh::alloc;
use vh::exercise::{exercise, Observer, OPS};
use vh::seeds::{self, Layout};
use vh::*;

const WALL_MS: u64 = 10_000;
const HARD_CAP: usize = 512 << 20;

fn budget(len: usize) -> usize {
    (64usize << 10).saturating_add(64usize.saturating_mul(len)).saturating_add(len.saturating_mul(len) / 4)
}

// ---------------------------------------------------------------------------------------------
// shared "current operation" map: one byte per case, written by the worker before every operation,
// read by the parent's describe() after a worker died, so that hang/alloc signatures name the
// operation (the observation point) instead of the input. Backed by a memfd inherited by the
// workers; when unavailable the signature falls back to "<seed>:<region>".

struct OpsMap {
    ptr: *mut u8,
    len: usize,
}
unsafe impl Send for OpsMap {}
unsafe impl Sync for OpsMap {}
impl OpsMap {
    fn open(len: usize) -> OpsMap {
        let none = OpsMap { ptr: std::ptr::null_mut(), len: 0 };
        let len = len.max(1);
        let is_worker = std::env::args().nth(1).as_deref() == Some("--worker");
        let fd: i32 = if is_worker {
            match std::env::var("VH_C01_OPS_FD").ok().and_then(|s| s.parse().ok()) {
                Some(fd) => fd,
                None => return none,
            }
        } else {
            let fd = unsafe { libc::memfd_create(c"vh-c01-ops".as_ptr(), 0) };
            if fd < 0 || unsafe { libc::ftruncate(fd, len as libc::off_t) } != 0 {
                return none;
            }
            std::env::set_var("VH_C01_OPS_FD", fd.to_string());
            fd
        };
        let p = unsafe { libc::mmap(std::ptr::null_mut(), len, libc::PROT_READ | libc::PROT_WRITE, libc::MAP_SHARED, fd, 0) };
        if p == libc::MAP_FAILED {
            return none;
        }
        OpsMap { ptr: p as *mut u8, len }
    }
    fn set(&self, slot: usize, code: u8) {
        if !self.ptr.is_null() && slot < self.len {
            unsafe { std::ptr::write_volatile(self.ptr.add(slot), code) }
        }
    }
    fn get(&self, slot: usize) -> Option<u8> {
        if !self.ptr.is_null() && slot < self.len {
            Some(unsafe { std::ptr::read_volatile(self.ptr.add(slot)) })
        } else {
            None
        }
    }
}

fn op_code_fast(label: &'static str) -> u8 {
    for (i, o) in OPS.iter().enumerate() {
        if std::ptr::eq(o.as_ptr(), label.as_ptr()) && o.len() == label.len() {
            return i as u8;
        }
    }
    vh::exercise::op_code(label)
}

// ---------------------------------------------------------------------------------------------
// the per-case monitor

struct Mon<'a> {
    l: &'a mut Local,
    ops: &'a OpsMap,
    slot: usize,
    base: usize,
    cur: &'static str,
    worst: usize,
    worst_op: &'static str,
}
impl Mon<'_> {
    fn close(&mut self) {
        let p = alloc::peak_since(self.base);
        if p > self.worst {
            self.worst = p;
            self.worst_op = self.cur;
        }
    }
}
impl Observer for Mon<'_> {
    fn op(&mut self, label: &'static str) {
        self.close();
        self.cur = label;
        self.ops.set(self.slot, op_code_fast(label));
        alloc::reset_peak();
    }
    fn panic(&mut self, label: &'static str, p: &PanicInfo) {
        // the report itself allocates (the signature is built from the source text): keep the
        // harness's own allocations out of the measurement window
        self.close();
        self.l.panic_violation(p, json!({"operation": label}));
        alloc::reset_peak();
    }
}

fn run_case(bytes: &[u8], l: &mut Local, ops: &OpsMap, slot: usize) {
    l.eval();
    let base = alloc::reset_peak();
    let mut mon = Mon { l, ops, slot, base, cur: OPS[0], worst: 0, worst_op: OPS[0] };
    let sum = exercise(bytes, &mut mon);
    mon.close();
    let (worst, worst_op) = (mon.worst, mon.worst_op);
    let b = budget(bytes.len());
    if worst > b {
        l.violation(
            format!("alloc-budget@{worst_op}"),
            format!("peak live heap {worst} bytes above the case baseline during `{worst_op}` for an input of {} bytes; budget 64 KiB + 64*len + len^2/4 = {b}", bytes.len()),
            json!({"peak_bytes": worst, "budget_bytes": b, "input_len": bytes.len(), "operation": worst_op}),
        );
    }
    l.count("peak_over_quarter_budget", (worst > b / 4) as u64);
    if sum.read == "Ok" {
        l.outcome("opened: Ok");
        // non-triviality rule: the dump opened; key = per-stream outcome vector + shape
        l.distinct(&(&sum.streams, sum.threads.min(3), sum.modules.min(3), sum.contexts_ok.min(2)));
        let ok = sum.streams.iter().filter(|s| s.1 == "Ok").count();
        l.count("streams_parsed_ok", ok as u64);
        if sum.contexts_ok > 0 {
            l.outcome("opened, >=1 thread context decoded");
        }
    } else {
        l.outcome(&format!("opened: Err({})", sum.read));
    }
    if sum.panics > 0 {
        l.outcome("case with >=1 panicking operation");
    }
}

type Gen = Arc<dyn Fn(u64) -> (Vec<u8>, Value) + Send + Sync>;

fn make_space(name: &str, len: u64, gen: Gen, ops: Arc<OpsMap>, slot_base: usize, chunk: u64) -> Space {
    let (g1, g2, o1, o2) = (gen.clone(), gen, ops.clone(), ops);
    Space::new(
        name,
        len,
        move |idx, l| {
            let (bytes, _) = g1(idx);
            run_case(&bytes, l, &o1, slot_base + idx as usize);
        },
        move |idx| {
            let (bytes, mut d) = g2(idx);
            let fallback = d.get("fallback_class").and_then(|c| c.as_str()).unwrap_or("").to_string();
            let class = match o2.get(slot_base + idx as usize) {
                Some(c) if c != 0 && (c as usize) < OPS.len() - 1 => OPS[c as usize].to_string(),
                _ => fallback,
            };
            if let Some(m) = d.as_object_mut() {
                m.remove("fallback_class");
                m.insert("class".into(), json!(class));
                m.insert("input_len".into(), json!(bytes.len()));
                if bytes.len() <= 96 {
                    m.insert("input_hex".into(), json!(bytes.iter().map(|b| format!("{b:02x}")).collect::<String>()));
                }
            }
            d
        },
    )
    .sandboxed(Sandbox { wall_ms: WALL_MS, hard_cap: HARD_CAP, chunk })
}

// ---------------------------------------------------------------------------------------------
// one-deviation tables

struct SeedTab {
    name: String,
    bytes: Vec<u8>,
    lay: Layout,
    common: Vec<u64>,
    /// cumulative number of cases before even offset 2*i
    prefix: Vec<u64>,
}
fn put(b: &mut [u8], off: usize, w: usize, v: u64, be: bool) {
    if be {
        b[off..off + w].copy_from_slice(&v.to_be_bytes()[8 - w..]);
    } else {
        b[off..off + w].copy_from_slice(&v.to_le_bytes()[..w]);
    }
}
fn get(b: &[u8], off: usize, w: usize, be: bool) -> u64 {
    let mut x = [0u8; 8];
    if be {
        x[8 - w..].copy_from_slice(&b[off..off + w]);
        u64::from_be_bytes(x)
    } else {
        x[..w].copy_from_slice(&b[off..off + w]);
        u64::from_le_bytes(x)
    }
}
impl SeedTab {
    fn new(name: String, bytes: Vec<u8>) -> SeedTab {
        let lay = seeds::layout(&bytes).unwrap_or_default();
        let len = bytes.len() as u64;
        let mut common = vec![0, 1, len.saturating_sub(1), len, len + 1, 1 << 31, u32::MAX as u64, 16, 0xffff];
        common.push(lay.dir_rva as u64);
        for e in &lay.entries {
            common.push(e.rva as u64);
            common.push(e.rva as u64 + e.size as u64);
        }
        common.sort();
        common.dedup();
        let mut t = SeedTab { name, bytes, lay, common, prefix: vec![] };
        let mut acc = 0u64;
        let n_off = t.bytes.len() / 2;
        let mut prefix = Vec::with_capacity(n_off + 1);
        for i in 0..n_off {
            prefix.push(acc);
            acc += t.variants(2 * i).len() as u64;
        }
        prefix.push(acc);
        t.prefix = prefix;
        t
    }
    fn total(&self) -> u64 {
        *self.prefix.last().unwrap_or(&0)
    }
    /// (width, value) replacements at `off`, excluding no-ops and duplicates after truncation to the width
    fn variants(&self, off: usize) -> Vec<(u8, u64)> {
        let o = off as u64;
        let mut vals = self.common.clone();
        vals.extend([o, o.saturating_sub(4), o.saturating_sub(8), o.saturating_sub(16)]);
        if let Some(s) = self.lay.enclosing_start(off) {
            vals.push(s as u64);
        }
        vals.sort();
        vals.dedup();
        let mut out = vec![];
        for w in [2usize, 4, 8] {
            if off + w > self.bytes.len() {
                continue;
            }
            let mask = if w == 8 { u64::MAX } else { (1u64 << (8 * w)) - 1 };
            let cur = get(&self.bytes, off, w, self.lay.big_endian);
            let start = out.len();
            // 64-bit fields (Memory64 sizes and base RVA, addresses): the boundary values of that width as well
            let wide = [u64::MAX, 1 << 63, u64::MAX - 7];
            for v in vals.iter().chain(if w == 8 { wide.iter() } else { [].iter() }) {
                let tv = v & mask;
                if tv != cur && !out[start..].iter().any(|x: &(u8, u64)| x.1 == tv) {
                    out.push((w as u8, tv));
                }
            }
        }
        out
    }
    fn case(&self, k: u64) -> (usize, u8, u64) {
        // largest i with prefix[i] <= k
        let i = self.prefix.partition_point(|p| *p <= k) - 1;
        let off = 2 * i;
        let (w, v) = self.variants(off)[(k - self.prefix[i]) as usize];
        (off, w, v)
    }
    fn short(&self) -> &str {
        &self.name
    }
}

struct Tabs {
    tabs: Vec<SeedTab>,
    starts: Vec<u64>,
    total: u64,
}
impl Tabs {
    fn new(seeds: Vec<seeds::Seed>) -> Tabs {
        let tabs: Vec<SeedTab> = seeds.into_iter().map(|(n, b)| SeedTab::new(n, b)).collect();
        let mut starts = vec![];
        let mut acc = 0;
        for t in &tabs {
            starts.push(acc);
            acc += t.total();
        }
        Tabs { tabs, starts, total: acc }
    }
    fn locate(&self, idx: u64) -> (&SeedTab, u64) {
        let i = self.starts.partition_point(|s| *s <= idx) - 1;
        (&self.tabs[i], idx - self.starts[i])
    }
}

fn mut1_gen(tabs: Arc<Tabs>) -> Gen {
    Arc::new(move |idx| {
        let (t, k) = tabs.locate(idx);
        let (off, w, v) = t.case(k);
        let mut b = t.bytes.clone();
        put(&mut b, off, w as usize, v, t.lay.big_endian);
        let region = t.lay.region(off);
        let d = json!({"seed": t.short(), "offset": off, "width": w, "value": format!("{v:#x}"), "region": region, "fallback_class": format!("{}:{}", t.short(), region)});
        (b, d)
    })
}

fn trunc_gen(seeds: Arc<Vec<seeds::Seed>>) -> (u64, Gen) {
    let mut starts = vec![];
    let mut acc = 0u64;
    for s in seeds.iter() {
        starts.push(acc);
        acc += s.1.len() as u64; // prefix lengths 0..len-1
    }
    let g: Gen = Arc::new(move |idx| {
        let i = starts.partition_point(|s| *s <= idx) - 1;
        let n = (idx - starts[i]) as usize;
        let (name, b) = &seeds[i];
        (b[..n].to_vec(), json!({"seed": name, "truncated_to": n, "of": b.len(), "fallback_class": format!("{name}:truncation")}))
    });
    (acc, g)
}

// ---------------------------------------------------------------------------------------------
// two deviations on structural words

struct Pairs {
    tabs: Vec<(String, Vec<u8>, Layout, Vec<usize>)>,
    starts: Vec<u64>,
    total: u64,
}
const V2: u64 = 7;
fn v2_value(which: u64, own: usize, other: usize, len: usize, lay: &Layout) -> u64 {
    match which {
        0 => 0,
        1 => 1,
        2 => len as u64,
        3 => u32::MAX as u64,
        4 => own as u64,
        5 => other as u64,
        _ => lay.enclosing_start(own).unwrap_or(lay.dir_rva) as u64,
    }
}
impl Pairs {
    fn new(seeds: &[seeds::Seed], max_words: usize) -> Pairs {
        let mut tabs = vec![];
        let mut starts = vec![];
        let mut acc = 0u64;
        for (name, b) in seeds {
            let lay = seeds::layout(b).unwrap_or_default();
            let mut words = vec![8usize, 12];
            for i in 0..lay.entries.len() * 3 {
                words.push(lay.dir_rva as usize + 4 * i);
            }
            let mut off = 32;
            while off + 4 <= b.len() {
                let v = get(b, off, 4, lay.big_endian);
                if v >= 1 && v <= b.len() as u64 && lay.region(off) != "directory" {
                    words.push(off);
                }
                off += 4;
            }
            words.retain(|w| w + 4 <= b.len());
            words.sort();
            words.dedup();
            words.truncate(max_words);
            let s = words.len() as u64;
            starts.push(acc);
            acc += s * s.saturating_sub(1) / 2 * V2 * V2;
            tabs.push((name.clone(), b.clone(), lay, words));
        }
        Pairs { tabs, starts, total: acc }
    }
}
fn mut2_gen(p: Arc<Pairs>) -> Gen {
    Arc::new(move |idx| {
        let i = p.starts.partition_point(|s| *s <= idx) - 1;
        let (name, bytes, lay, words) = &p.tabs[i];
        let k = idx - p.starts[i];
        let (va, vb, mut pair) = (k % V2, (k / V2) % V2, k / (V2 * V2));
        // unrank pair -> (a < b)
        let mut a = 0usize;
        let n = words.len();
        loop {
            let row = (n - 1 - a) as u64;
            if pair < row {
                break;
            }
            pair -= row;
            a += 1;
        }
        let b = a + 1 + pair as usize;
        let (oa, ob) = (words[a], words[b]);
        let xa = v2_value(va, oa, ob, bytes.len(), lay) & 0xffff_ffff;
        let xb = v2_value(vb, ob, oa, bytes.len(), lay) & 0xffff_ffff;
        let mut out = bytes.clone();
        put(&mut out, oa, 4, xa, lay.big_endian);
        put(&mut out, ob, 4, xb, lay.big_endian);
        let d = json!({"seed": name, "offsets": [oa, ob], "values": [format!("{xa:#x}"), format!("{xb:#x}")], "regions": [lay.region(oa), lay.region(ob)],
            "fallback_class": format!("{name}:{}+{}", lay.region(oa), lay.region(ob))});
        (out, d)
    })
}

// ---------------------------------------------------------------------------------------------
// fan-in shapes

const KS: [u32; 4] = [1, 8, 64, 512];
fn fanin_gen() -> (u64, Gen) {
    // kinds with a second fan-out level get k2 in KS, the others k2 = 1
    let mut shapes: Vec<(&'static str, u32, u32, u32, bool)> = vec![];
    for be in [false, true] {
        for kind in seeds::FANIN_KINDS {
            let two = kind.starts_with("crashpad");
            for k in KS {
                for k2 in if two { KS.to_vec() } else { vec![1] } {
                    for s in KS {
                        shapes.push((kind, k, k2, s, be));
                    }
                }
            }
        }
    }
    let n = shapes.len() as u64;
    let g: Gen = Arc::new(move |idx| {
        let (kind, k, k2, s, be) = shapes[idx as usize];
        let b = seeds::fanin(kind, k, k2, s, if be { Endian::Big } else { Endian::Little });
        (b, json!({"fanin": kind, "k": k, "k2": k2, "s": s, "endian": if be { "be" } else { "le" }, "fallback_class": format!("fanin:{kind}")}))
    });
    (n, g)
}

// ---------------------------------------------------------------------------------------------
// tiny contents

fn nstrings(max_len: u32) -> u64 {
    (0..=max_len).map(|l| 256u64.pow(l)).sum()
}
fn string_of(mut idx: u64, max_len: u32) -> Vec<u8> {
    for l in 0..=max_len {
        let n = 256u64.pow(l);
        if idx < n {
            return (0..l).map(|i| (idx >> (8 * i)) as u8).collect();
        }
        idx -= n;
    }
    panic!("string_of out of range")
}
fn one_stream_dump(ty: u32, content: &[u8]) -> Vec<u8> {
    // header (32) + content at 32 + directory after it (4-aligned)
    let mut b = vec![];
    let dir = (32 + content.len() + 3) & !3;
    b.extend(0x504d_444du32.to_le_bytes());
    b.extend(0x0000_a793u32.to_le_bytes());
    b.extend(1u32.to_le_bytes());
    b.extend((dir as u32).to_le_bytes());
    b.extend([0u8; 16]);
    b.extend(content);
    b.resize(dir, 0);
    b.extend(ty.to_le_bytes());
    b.extend((content.len() as u32).to_le_bytes());
    b.extend(32u32.to_le_bytes());
    b
}
fn tiny_gen(text_len: u32) -> (u64, Gen) {
    use minidump_common::format::MINIDUMP_STREAM_TYPE as ST;
    let text: Vec<u32> = [
        ST::LinuxCpuInfo, ST::LinuxProcStatus, ST::LinuxLsbRelease, ST::LinuxCmdLine, ST::LinuxEnviron, ST::LinuxMaps, ST::MozLinuxLimits, ST::MozSoftErrors,
        ST::CommentStreamA, ST::CommentStreamW,
    ]
    .iter()
    .map(|s| *s as u32)
    .collect();
    let other: Vec<u32> = seeds::ALL_STREAM_TYPES.iter().map(|s| *s as u32).filter(|t| !text.contains(t)).collect();
    let (n_text, n_other, n_file) = (nstrings(text_len), nstrings(1), nstrings(2));
    let a = text.len() as u64 * n_text;
    let b = a + other.len() as u64 * n_other;
    let total = b + n_file;
    let g: Gen = Arc::new(move |idx| {
        if idx < a {
            let ty = text[(idx / n_text) as usize];
            let c = string_of(idx % n_text, text_len);
            (one_stream_dump(ty, &c), json!({"stream": seeds::stream_name(ty), "content": c, "fallback_class": format!("tiny:{}", seeds::stream_name(ty))}))
        } else if idx < b {
            let k = idx - a;
            let ty = other[(k / n_other) as usize];
            let c = string_of(k % n_other, 1);
            (one_stream_dump(ty, &c), json!({"stream": seeds::stream_name(ty), "content": c, "fallback_class": format!("tiny:{}", seeds::stream_name(ty))}))
        } else {
            let c = string_of(idx - b, 2);
            (c.clone(), json!({"whole_file": c, "fallback_class": "tiny:whole-file"}))
        }
    });
    (total, g)
}

// ---------------------------------------------------------------------------------------------

fn machinery(msg: String) -> ! {
    eprintln!("MACHINERY: C01: {msg}");
    std::process::exit(2)
}

fn main() {
    run_check("C01", |ctx| {
        let thorough = ctx.tier == Tier::Thorough;
        let synth = seeds::synthetic_seeds();
        let corpus = if thorough { seeds::corpus_seeds() } else { vec![] };
        let n_synth = synth.len();
        let max_synth = synth.iter().map(|s| s.1.len()).max().unwrap_or(0);
        let synth_bytes: usize = synth.iter().map(|s| s.1.len()).sum();

        let tabs = Arc::new(Tabs::new(synth.clone()));
        let ctabs = Arc::new(Tabs::new(corpus.clone()));
        let mut all = synth.clone();
        all.extend(corpus.clone());
        let (n_trunc, g_trunc) = trunc_gen(Arc::new(all.clone()));
        let (n_fanin, g_fanin) = fanin_gen();
        let (n_tiny, g_tiny) = tiny_gen(if thorough { 3 } else { 2 });
        let pairs = Arc::new(if thorough { Pairs::new(&synth, 64) } else { Pairs::new(&[], 0) });

        let lens = [tabs.total, n_trunc, n_fanin, n_tiny, ctabs.total, pairs.total];
        let mut bases = vec![];
        let mut acc = 0usize;
        for n in lens {
            bases.push(acc);
            acc += n as usize;
        }
        let ops = Arc::new(OpsMap::open(acc));

        let mut def = CheckDef::new(
            "C01",
            "fault_enumeration",
            "every case = one byte string built from a structured seed by an enumerated corruption (one deviation: every even offset x width {2,4,8} x value menu {0,1,len-1,len,len+1,2^31,2^32-1,16,0xffff, own offset, own offset-4/-8/-16, start of enclosing stream, directory rva, every directory rva and rva+size}, no-ops removed; every truncation; fan-in shapes; tiny stream contents; thorough: two deviations on structural words), run through the full consumer driver (open, all 24 stream types, all queries, all prints) under per-operation panic guards, a 10 s wall budget, a 512 MiB hard cap and the allocation budget 64 KiB + 64*len + len^2/4 on peak live bytes above the case baseline. distinct_nontrivial = distinct (per-stream outcome vector, thread/module/context shape) among cases where Minidump::read returned Ok.",
        );
        def.assumptions = vec![
            "inputs are corruptions of ~70 structured seeds and all very short strings; byte strings needing 3+ coordinated corruptions far from any seed are not reached".into(),
            "allocation is observed through the global allocator of the worker process (peak of live bytes above the baseline taken after the input buffer is built); the input buffer itself is not charged".into(),
            "printing goes to io::sink(): formatting code runs, but write errors are not injected".into(),
            "hang = one case (all operations on one input) exceeding 10 s wall in a worker, confirmed by the core re-running the case alone in a fresh worker (a legitimate case takes < 50 ms); the property's 'always terminates' is checked against this budget only".into(),
            "stack-overflow style process death would be reported as crash@<operation>; third-party crates (scroll, range-map, encoding_rs, procfs-core, time) are exercised only through the reader's call sites".into(),
        ];
        def.extra.insert("wall_budget_ms".into(), json!(WALL_MS));
        def.extra.insert("hard_cap_bytes".into(), json!(HARD_CAP));
        def.extra.insert("alloc_budget".into(), json!("64 KiB + 64*len + len^2/4 peak live bytes above baseline"));
        def.extra.insert("synthetic_seeds".into(), json!({"count": n_synth, "total_bytes": synth_bytes, "largest": max_synth, "names": synth.iter().map(|s| format!("{} ({} B)", s.0, s.1.len())).collect::<Vec<_>>()}));
        def.extra.insert("corpus_seeds".into(), json!(corpus.iter().map(|s| format!("{} ({} B)", s.0, s.1.len())).collect::<Vec<_>>()));
        def.extra.insert("fanin".into(), json!({"kinds": seeds::FANIN_KINDS, "k": KS, "s": KS, "k2": "KS for crashpad kinds, else 1", "endians": 2}));
        def.extra.insert("operation_map".into(), json!(if ops.ptr.is_null() { "unavailable: hang/alloc signatures name <seed>:<region>" } else { "memfd shared with workers: hang/alloc signatures name the operation" }));
        if thorough {
            def.extra.insert("mut2".into(), json!({"structural_words": "header stream_count and directory rva, every directory word, every 4-aligned u32 outside the directory with 1 <= value <= len; first 64 per seed", "values_per_word": ["0", "1", "len", "0xffffffff", "own offset", "other word's offset", "start of enclosing stream"]}));
        }

        // harness self-check (parent only): the unmutated seeds together must get every stream type parsed
        if std::env::args().nth(1).as_deref() != Some("--worker") {
            let mut ok: std::collections::BTreeMap<&'static str, usize> = std::collections::BTreeMap::new();
            let mut ctx_ok = 0;
            for (_, b) in &synth {
                let mut q = vh::exercise::Quiet::default();
                let sum = exercise(b, &mut q);
                if sum.read != "Ok" {
                    machinery(format!("a synthetic seed does not open: {}", sum.read));
                }
                ctx_ok += (sum.contexts_ok > 0) as usize;
                for (st, r) in &sum.streams {
                    *ok.entry(st).or_insert(0) += (*r == "Ok") as usize;
                }
            }
            let never: Vec<_> = ok.iter().filter(|(_, n)| **n == 0).map(|(s, _)| *s).collect();
            if !never.is_empty() || ok.len() != 24 || ctx_ok < 18 {
                machinery(format!("seed self-check failed: stream types never parsed from any unmutated seed: {never:?}; stream types {}; seeds with a decoded thread context {ctx_ok}", ok.len()));
            }
            def.extra.insert("unmutated_seeds_parsing_each_stream_type".into(), json!(ok));
        }

        let mut spaces = vec![
            make_space("mut1", tabs.total, mut1_gen(tabs.clone()), ops.clone(), bases[0], 64),
            make_space("trunc", n_trunc, g_trunc, ops.clone(), bases[1], 256),
            make_space("fanin", n_fanin, g_fanin, ops.clone(), bases[2], 4),
            make_space("tiny", n_tiny, g_tiny, ops.clone(), bases[3], 8192),
        ];
        if thorough {
            spaces.push(make_space("mut1-corpus", ctabs.total, mut1_gen(ctabs.clone()), ops.clone(), bases[4], 256));
            spaces.push(make_space("mut2", pairs.total, mut2_gen(pairs.clone()), ops.clone(), bases[5], 256));
        }
        def.spaces = spaces;
        def
    })
}
