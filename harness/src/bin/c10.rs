//! C10 — streamed symbol parsing ignores chunking and hands every byte to the callback.
//! (scaled-constant build; see vh::c10common and vh::bufmodel)
use std::sync::Arc;
use vh::bufmodel::{self as bm};
use vh::c10common::*;
use vh::*;

#[cfg(not(rust_minidump_verif_smallbuf))]
compile_error!("c10 must be built with --cfg rust_minidump_verif_smallbuf (see /verif/check)");

fn main() {
    run_check("C10", |ctx| {
        let thorough = ctx.tier == Tier::Thorough;
        let mut def = CheckDef::new(
            "C10",
            "model_checking",
            "explicit-state model of the streaming buffer machine (scaled constants INITIAL 16 / MAX 256): for every input of the families (1..3 [thorough 4] INFO lines with lengths at every buffer threshold +-1 below MAX/2, with/without final newline; real record files LF/CRLF with every line corrupted in turn; tiny inputs) a memoised search covers ALL reader schedules (sync) and all body chunkings (async, inputs <= 80 bytes); every distinct terminal outcome's witness schedule, every fixed chunk size, the 1-byte trickle, every one-deviation schedule (and two-deviation ones for the record files), every single split point (async), and every composition of inputs <= 16 bytes are replayed on the real SymbolFile::parse / parse_async and compared with the model read by read and callback by callback, and with the whole-buffer parse (outcome class, symbol table, callback bytes). distinct_nontrivial = distinct (input, loop kind, number of distinct terminal outcomes).",
        );
        def.assumptions = vec![
            "scaled buffer constants (hook H1) preserve the loop's behaviour: same ratio MAX/INITIAL = 16, four doublings; a real-constant replay binds the scale (see c10real in the evidence when present)".into(),
            "line parser abstracted in the model to 'consume through the last newline, fail on a marked corrupt line'; demonstrated adequate by the read-by-read conformance".into(),
            "an empty body chunk in the middle of an HTTP body is not produced by the async schedules (reqwest/hyper do not yield empty data frames)".into(),
            "error identity is not compared, only Ok / Err class (the property says 'an identical symbol table, or an error')".into(),
        ];
        let fam_a = family_a(if thorough { 4 } else { 3 });
        let mut fam_b_short = family_b(SHORT_RECORDS, "short");
        // files with empty lines inside groups: valid or not, the outcome must not depend on the chunking
        fam_b_short.extend(family_gappy());
        let fam_b = family_b(RECORDS, "full");
        let tiny = family_tiny();
        let a = Arc::new(fam_a);
        let (a1, a2) = (a.clone(), a.clone());
        def.spaces.push(Space::new(
            "info-lines",
            a.len() as u64,
            move |i, l| {
                let inp = &a1[i as usize];
                let lines = inp.data.iter().filter(|&&b| b == b'\n').count() + if inp.final_newline { 0 } else { 1 };
                check_input(bm::SMALL, inp, &Budget { exhaustive_sizes: lines <= 2, dev_reads: if thorough { 16 } else { 8 }, two_dev: thorough && lines <= 2, model_async: true, compositions: true, two_split: false, model_check: true, chunk_sizes: Budget::small_defaults().0, dev_menu: Budget::small_defaults().1, split_stride: 1 }, l)
            },
            move |i| a2[i as usize].json(),
        ));
        let bs = Arc::new(fam_b_short);
        let (b1, b2) = (bs.clone(), bs.clone());
        def.spaces.push(Space::new(
            "short-records",
            bs.len() as u64,
            move |i, l| check_input(bm::SMALL, &b1[i as usize], &Budget { exhaustive_sizes: true, dev_reads: 32, two_dev: true, model_async: false, compositions: false, two_split: thorough, model_check: true, chunk_sizes: Budget::small_defaults().0, dev_menu: Budget::small_defaults().1, split_stride: 1 }, l),
            move |i| b2[i as usize].json(),
        ).chunked(1));
        let bf = Arc::new(fam_b);
        let (f1, f2) = (bf.clone(), bf.clone());
        def.spaces.push(Space::new(
            "full-records",
            bf.len() as u64,
            move |i, l| check_input(bm::SMALL, &f1[i as usize], &Budget { exhaustive_sizes: true, dev_reads: 64, two_dev: thorough, model_async: false, compositions: false, two_split: false, model_check: true, chunk_sizes: Budget::small_defaults().0, dev_menu: Budget::small_defaults().1, split_stride: 1 }, l),
            move |i| f2[i as usize].json(),
        ).chunked(1));
        let t = Arc::new(tiny);
        let (t1, t2) = (t.clone(), t.clone());
        def.spaces.push(Space::new(
            "tiny-all-compositions",
            t.len() as u64,
            move |i, l| check_input(bm::SMALL, &t1[i as usize], &Budget { exhaustive_sizes: true, dev_reads: 32, two_dev: true, model_async: true, compositions: true, two_split: true, model_check: true, chunk_sizes: Budget::small_defaults().0, dev_menu: Budget::small_defaults().1, split_stride: 1 }, l),
            move |i| t2[i as usize].json(),
        ).chunked(1));
        // ---- the same conformance at the REAL constants (stock build), in a child process
        let tier_name = ctx.tier.name();
        def.spaces.push(
            Space::new(
                "real-constants",
                1,
                move |_, l| {
                    let exe = std::env::var("VERIF_C10REAL").ok().map(std::path::PathBuf::from).unwrap_or_else(|| {
                        let me = std::env::current_exe().expect("current_exe");
                        me.parent().unwrap().parent().unwrap().parent().unwrap().join("plain/release/c10real")
                    });
                    assert!(exe.exists(), "c10: the real-constant helper {exe:?} is not built (run ./check build)");
                    let out = std::env::temp_dir().join(format!("c10real-{}", std::process::id()));
                    let _ = std::fs::remove_dir_all(&out);
                    let st = std::process::Command::new(&exe).arg(tier_name).env("VERIF_OUT_DIR", &out).stdout(std::process::Stdio::null()).status().expect("spawn c10real");
                    let code = st.code().unwrap_or(2);
                    assert!(code == 0 || code == 1, "c10: c10real ended with a machinery error (exit {code})");
                    let ev: Value = serde_json::from_str(&std::fs::read_to_string(out.join("evidence/C10.json")).expect("c10real evidence")).expect("c10real evidence json");
                    let cov = &ev["coverage"];
                    l.evals(cov["evaluations"].as_u64().unwrap_or(0));
                    l.count("traces_validated", cov["traces_validated_against_impl"].as_u64().unwrap_or(0));
                    l.count("real_constant_schedules", cov["evaluations"].as_u64().unwrap_or(0));
                    l.distinct(&("real-constants", cov["distinct_nontrivial"].as_u64()));
                    for (k, n) in cov["observed_outcomes"].as_object().into_iter().flatten() {
                        for _ in 0..n.as_u64().unwrap_or(0).min(1) {
                            l.outcome(&format!("real constants: {k}"));
                        }
                    }
                    for v in cov["all_violations"].as_array().into_iter().flatten() {
                        l.violation(v["signature"].as_str().unwrap_or("?"), format!("[real constants] {}", v["what"].as_str().unwrap_or("?")), v["detail"].clone());
                    }
                    let _ = std::fs::remove_dir_all(&out);
                },
                |_| json!({"helper": "c10real (stock build, INITIAL 10 KiB / MAX 160 KiB)"}),
            )
            .wall(3_600_000),
        );
        def.finish = Some(Box::new(|total, extra| {
            let g = |k: &str| total.counters.get(k).copied().unwrap_or(0);
            extra.insert("states".into(), json!(g("states").max(1)));
            extra.insert("transitions".into(), json!(g("transitions").max(1)));
            extra.insert("traces_validated_against_impl".into(), json!(g("traces_validated")));
            extra.insert("model_code_divergences".into(), json!(g("model_code_divergences")));
            if g("model_code_divergences") > 0 {
                // The verdict is always taken from real-code observations (every schedule above was executed on
                // the real parser and compared with the real whole-buffer parse). A model that no longer matches
                // the code only voids the claim that the model search covers ALL schedules of this code.
                eprintln!("[C10] WARNING: the buffer-machine model and the real parser diverge on {} schedule(s): the all-schedules model result does not transfer to this code (update vh::bufmodel); the verdict rests on the schedules executed on the real parser.", g("model_code_divergences"));
                extra.insert("exhaustive".into(), json!(false));
                extra.insert("model_binding".into(), json!("BROKEN: model and code diverge; coverage = the schedules executed on the real code only"));
            } else {
                extra.insert("model_binding".into(), json!("every replayed schedule matched the model read by read and callback by callback"));
            }
        }));
        def
    })
}
