//! C10 at the REAL buffer constants (stock build of /repo, no cfg): conformance of the buffer
//! model (vh::bufmodel with INITIAL 10 KiB / MAX 160 KiB) with the real parser and the property
//! itself on explicit schedule families. Spawned by the `real-constants` space of c10; it binds
//! the scaled model check to the constants that ship.
use std::sync::Arc;
use vh::bufmodel as bm;
use vh::c10common::*;
use vh::*;

#[cfg(rust_minidump_verif_smallbuf)]
compile_error!("c10real must be built WITHOUT --cfg rust_minidump_verif_smallbuf");

fn line(l: usize) -> Vec<u8> {
    match l {
        1 => b"\n".to_vec(),
        2 => b"\r\n".to_vec(),
        _ => {
            // a line that leaves a trace in the table (a PUBLIC record at an address derived from the line's length),
            // so that a line which is silently dropped shows; lines too short for that are INFO lines
            let head = format!("PUBLIC {l:x} 0 ");
            let mut v = if l >= head.len() + 2 { head.into_bytes() } else { b"INFO ".to_vec() };
            v.resize(l - 1, b'x');
            v.push(b'\n');
            v
        }
    }
}
fn inputs(lens: &[usize], k: usize) -> Vec<Inp> {
    let mut v = vec![];
    let n = lens.len().pow(k as u32);
    for mut i in 0..n {
        let mut ls = vec![];
        for _ in 0..k {
            ls.push(lens[i % lens.len()]);
            i /= lens.len();
        }
        for nofinal in [false, true] {
            let mut d: Vec<u8> = ls.iter().flat_map(|&l| line(l)).collect();
            if nofinal {
                d.pop();
                if d.is_empty() || ls.last() == Some(&2) {
                    continue;
                }
            }
            v.push(Inp { label: format!("INFO lines {ls:?}{}", if nofinal { " (no final newline)" } else { "" }), data: d, corrupt_at: None, final_newline: !nofinal, max_line: *ls.iter().max().unwrap() });
        }
    }
    v
}

fn main() {
    run_check("C10", |ctx| {
        let thorough = ctx.tier == Tier::Thorough;
        let mut def = CheckDef::new("C10", "model_checking", "real-constant conformance: INFO-line inputs with lengths at the real buffer thresholds (10/20/40/80 KiB +-1, all below 80 KiB) x {final newline, none}; schedules: whole buffer, fixed chunk sizes around the thresholds, one-deviation schedules on the first reads, 16 split points of the async body; model (real constants) == code read by read, and outcome == whole-buffer outcome");
        let rl: Vec<usize> = vec![1, 2, 7, 5119, 10239, 10240, 10241, 20479, 20481, 40959, 40961, 64000, 81918, 81919];
        let rl3: Vec<usize> = if thorough { vec![7, 5119, 10240, 20481, 40961, 46080, 76799, 81919] } else { vec![7, 10240, 15360, 46080, 76799, 81919] };
        let mut all = inputs(&rl, 1);
        all.extend(inputs(&rl, 2));
        all.extend(inputs(&rl3, 3));
        if thorough {
            all.extend(inputs(&[7, 10241, 40961, 81919], 4));
        }
        // a long line (> 64 KiB), then F bytes of short records, then another long line (all below 80 KiB): whatever
        // capacity the buffer has reached and wherever the second long line starts in it, it fits
        for first in [65_537usize, 70_000, 81_919] {
            for filler in [0usize, 8 * 1024, 20 * 1024, 40 * 1024, 56 * 1024, 60 * 1024, 64 * 1024, 90 * 1024] {
                for second in [65_537usize, 75_000, 81_919] {
                    let mut d = line(first);
                    let mut k = 0;
                    while k + 31 <= filler {
                        d.extend_from_slice(&line(31));
                        k += 31;
                    }
                    d.extend_from_slice(&line(second));
                    d.extend_from_slice(&line(31));
                    all.push(Inp { label: format!("INFO line of {first}, {filler} bytes of 31-byte lines, INFO line of {second}, one more"), data: d, corrupt_at: None, final_newline: true, max_line: first.max(second) });
                }
            }
        }
        // the same with the amount of filler swept finely (every 1.5 KiB up to 200 KiB): the second long line starts at
        // every region of the grown buffer
        for step in 0..134usize {
            let filler = step * 1536;
            let (first, second) = (70_000usize, 81_919usize);
            let mut d = line(first);
            let mut k = 0;
            while k + 31 <= filler {
                d.extend_from_slice(&line(31));
                k += 31;
            }
            d.extend_from_slice(&line(second));
            d.extend_from_slice(&line(31));
            all.push(Inp { label: format!("INFO line of {first}, {filler} bytes of 31-byte lines, INFO line of {second}, one more"), data: d, corrupt_at: None, final_newline: true, max_line: second });
        }
        let a = Arc::new(all);
        let (a1, a2) = (a.clone(), a.clone());
        def.spaces.push(
            Space::new(
                "real-info-lines",
                a.len() as u64,
                move |i, l| {
                    let inp = &a1[i as usize];
                    let n = inp.data.len();
                    check_input(
                        bm::REAL,
                        inp,
                        &Budget {
                            exhaustive_sizes: false,
                            dev_reads: 8,
                            two_dev: false,
                            model_async: false,
                            compositions: false,
                            two_split: false,
                            model_check: false,
                            chunk_sizes: vec![4096, 5120, 8192, 10239, 10240, 10241, 16384, 20480, 65536, 81920, 163840, 163841],
                            dev_menu: vec![1, 5120, 10239, 20481, 40960],
                            split_stride: (n / 16).max(1),
                        },
                        l,
                    )
                },
                move |i| {
                    let mut j = a2[i as usize].json();
                    j["text"] = json!("(INFO lines of the stated lengths)");
                    j
                },
            )
            .chunked(1),
        );
        // record files (each line corrupted / replaced by a second MODULE record, with and without final newline)
        // and the tiny inputs: at the real constants a small file fits into the first read, so whole-buffer parsing
        // hands the line parser everything in ONE call while a chunked reader hands it line by line
        let mut recs = family_b(SHORT_RECORDS, "short");
        recs.extend(family_b(RECORDS, "full"));
        recs.extend(family_tiny());
        let r = Arc::new(recs);
        let (r1, r2) = (r.clone(), r.clone());
        def.spaces.push(
            Space::new(
                "real-record-files",
                r.len() as u64,
                move |i, l| {
                    let inp = &r1[i as usize];
                    check_input(
                        bm::REAL,
                        inp,
                        &Budget { exhaustive_sizes: false, dev_reads: 4, two_dev: false, model_async: false, compositions: true, two_split: false, model_check: false, chunk_sizes: vec![1, 2, 7, 16, 64], dev_menu: vec![1, 15, 16, 17], split_stride: 1 },
                        l,
                    )
                },
                move |i| r2[i as usize].json(),
            )
            .chunked(1),
        );
        def.finish = Some(Box::new(|total, extra| {
            let g = |k: &str| total.counters.get(k).copied().unwrap_or(0);
            extra.insert("traces_validated_against_impl".into(), json!(g("traces_validated")));
            extra.insert("model_code_divergences".into(), json!(g("model_code_divergences")));
            extra.insert("states".into(), json!(1));
            extra.insert("transitions".into(), json!(1));
            // all violations, including those the parent will match against known findings
            extra.insert("all_violations".into(), json!(total.violations.iter().map(|v| json!({"signature": v.sig, "what": v.what, "cases": v.count, "detail": v.detail})).collect::<Vec<_>>()));
            if g("model_code_divergences") > 0 {
                // The verdict is always taken from real-code observations (every schedule above was executed on
                // the real parser and compared with the real whole-buffer parse). A model that no longer matches
                // the code only voids the claim that the model search covers ALL schedules of this code.
                eprintln!("[C10] WARNING: the buffer-machine model and the real parser diverge on {} schedule(s): the all-schedules model result does not transfer to this code (update vh::bufmodel); the verdict rests on the schedules executed on the real parser.", g("model_code_divergences"));
                extra.insert("exhaustive".into(), json!(false));
                extra.insert("model_binding".into(), json!("BROKEN: model and code diverge; coverage = the schedules executed on the real code only"));
            } else {
                extra.insert("model_binding".into(), json!("every replayed schedule matched the model read by read and callback by callback"));
            }
        }));
        def
    })
}
