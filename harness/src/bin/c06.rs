//! C06 — STACK CFI rules evaluate exactly as the documented postfix language.
//!
//! Bounded-exhaustive differential check: every rule program up to the length bound over the
//! token alphabet is placed in the CFA, the RA and a general-register position of a one-record
//! symbol file, parsed by the real parser and evaluated by the real `SymbolFile::walk_frame`
//! through a mock `FrameWalker`; the complete observable result (Some/None, cfa, ra, final state
//! of every caller register) is compared with `vh::refcfi`, an interpreter written from the
//! module documentation of walker.rs. A second space enumerates record structure (INIT rule
//! lists x two delta records x address layouts x lookup addresses); a third drives the real
//! `walk_stack` (the `CfiStackWalker` callbacks) of amd64, x86 and arm over a rule menu that includes
//! values wider than a 32-bit register.
use breakpad_symbols::{FrameWalker, SimpleModule, SymbolFile};
use minidump::format::{CONTEXT_AMD64, CONTEXT_ARM, CONTEXT_ARM64, CONTEXT_MIPS, CONTEXT_X86};
use minidump::system_info::{Cpu, Os};
use minidump::{CpuContext, MinidumpContext, MinidumpContextValidity, MinidumpMemory, MinidumpModule, MinidumpModuleList, MinidumpRawContext, UnifiedMemory};
use minidump_unwind::{string_symbol_supplier, walk_stack, CallStack, FrameTrust, SystemInfo, Symbolizer};
use std::collections::{BTreeMap, HashMap, HashSet};
use vh::refcfi::{self, CfiEnv, CfiExpect, CfiRecord, RegOut};
use vh::*;

// ---------------------------------------------------------------------------------------------
// alphabets

const TOKENS: &[&str] = &[
    "+", "-", "*", "/", "%", "@", "^", ".cfa", ".ra", ".undef",
    "0", "1", "2", "3", "8", "-1", "9223372036854775807", "9223372036854775808", "-9223372036854775809",
    "$a", "$b", "a", "b", "$zz", "zz", "!!",
];
const OPERATORS: &[&str] = &["+", "-", "*", "/", "%", "@", "^", ".cfa"];

/// callee register files: (name, value); a name that is absent is unknown / not valid
const REGFILES: &[&[(&str, u64)]] = &[
    &[("a", 16), ("b", 3)],
    &[("a", u64::MAX), ("b", 1 << 63)],
    &[("b", 8)],
    &[("a", 0), ("b", 1)],
];
/// registers the mock walker accepts for the caller
const CALLER_KNOWN: &[&str] = &["a", "b", "c"];

/// stack memory image: readable in three small windows (bottom, top and middle of the address
/// space); even addresses hold small even-or-odd values that are themselves readable addresses
/// (so `^ ^` chains succeed), odd addresses hold large scrambled values.
fn mem_at(addr: u64, readable: bool) -> Option<u64> {
    if !readable {
        return None;
    }
    let mid = 1u64 << 63;
    if !(addr < 0x80 || addr >= u64::MAX - 0x7f || (mid..mid + 0x80).contains(&addr)) {
        return None;
    }
    Some(if addr % 2 == 0 { ((addr & 0x7f) * 3 + 1) % 0x80 } else { addr.wrapping_mul(0x9E37_79B9_7F4A_7C15).rotate_left(17) ^ 0xA5A5_5A5A_0F0F_F0F0 })
}

#[derive(Clone, Copy, Debug, PartialEq, Eq)]
enum Obs {
    Set(u64),
    Cleared,
}

struct Mock {
    ip: u64,
    rf: usize,
    readable: bool,
    cfa: Option<u64>,
    ra: Option<u64>,
    caller: BTreeMap<&'static str, Obs>,
}
impl Mock {
    fn new(ip: u64, rf: usize, readable: bool) -> Mock {
        Mock { ip, rf, readable, cfa: None, ra: None, caller: BTreeMap::new() }
    }
}
fn known(n: &str) -> Option<&'static str> {
    CALLER_KNOWN.iter().copied().find(|k| *k == n)
}
impl FrameWalker for Mock {
    fn get_instruction(&self) -> u64 {
        self.ip
    }
    fn has_grand_callee(&self) -> bool {
        false
    }
    fn get_grand_callee_parameter_size(&self) -> u32 {
        0
    }
    fn get_register_at_address(&self, a: u64) -> Option<u64> {
        mem_at(a, self.readable)
    }
    fn get_callee_register(&self, n: &str) -> Option<u64> {
        REGFILES[self.rf].iter().find(|r| r.0 == n).map(|r| r.1)
    }
    fn set_caller_register(&mut self, n: &str, v: u64) -> Option<()> {
        let k = known(n)?;
        self.caller.insert(k, Obs::Set(v));
        Some(())
    }
    fn clear_caller_register(&mut self, n: &str) {
        if let Some(k) = known(n) {
            self.caller.insert(k, Obs::Cleared);
        }
    }
    fn set_cfa(&mut self, v: u64) -> Option<()> {
        self.cfa = Some(v);
        Some(())
    }
    fn set_ra(&mut self, v: u64) -> Option<()> {
        self.ra = Some(v);
        Some(())
    }
}
struct Env {
    rf: usize,
    readable: bool,
}
impl CfiEnv for Env {
    fn callee_reg(&self, name: &str) -> Option<u64> {
        REGFILES[self.rf].iter().find(|r| r.0 == name).map(|r| r.1)
    }
    fn mem(&self, addr: u64) -> Option<u64> {
        mem_at(addr, self.readable)
    }
}

// ---------------------------------------------------------------------------------------------
// comparison of one evaluation with the reference

const P: &str = "cfi.walk_frame";

fn compare(l: &mut Local, exp: &CfiExpect, res: Result<Option<()>, PanicInfo>, m: &Mock, detail: &dyn Fn() -> Value) {
    let res = match res {
        Ok(r) => r,
        Err(p) => {
            l.panic_violation(&p, detail());
            return;
        }
    };
    match exp {
        CfiExpect::Open => {}
        CfiExpect::Malformed => {
            if res.is_some() && (m.cfa.is_none() || m.ra.is_none()) {
                l.violation(format!("{P}:malformed-rules:Some-without-cfa-or-ra"), "walk_frame returned Some on malformed rules without reporting both cfa and ra", detail());
            }
        }
        CfiExpect::Fail(why) => {
            if res.is_some() {
                l.violation(format!("{P}:result:got-Some:expected-None({why})"), format!("walk_frame succeeded where the documented semantics fail ({why})"), detail());
            }
        }
        CfiExpect::Some { cfa, ra, regs } => {
            if res.is_none() {
                l.violation(format!("{P}:result:got-None:expected-Some"), "walk_frame failed where the documented semantics succeed", detail());
                return;
            }
            if m.cfa != Some(*cfa) {
                l.violation(format!("{P}:cfa-value"), format!("cfa reported {:?}, reference {cfa:#x}", m.cfa), detail());
            }
            if m.ra != Some(*ra) {
                l.violation(format!("{P}:ra-value"), format!("ra reported {:?}, reference {ra:#x}", m.ra), detail());
            }
            for k in CALLER_KNOWN {
                let want = regs.get(*k);
                let got = m.caller.get(k);
                let (wk, ok) = match (want, got) {
                    (Some(RegOut::Open), _) => ("open", true),
                    (None, None) => ("untouched", true),
                    (Some(RegOut::Set(v)), Some(Obs::Set(g))) => ("set", v == g),
                    (Some(RegOut::Cleared), Some(Obs::Cleared)) => ("cleared", true),
                    (None, _) => ("untouched", false),
                    (Some(RegOut::Set(_)), _) => ("set", false),
                    (Some(RegOut::Cleared), _) => ("cleared", false),
                };
                if !ok {
                    let gk = match got {
                        None => "untouched",
                        Some(Obs::Set(_)) => "set",
                        Some(Obs::Cleared) => "cleared",
                    };
                    l.violation(
                        format!("{P}:caller-register:expected-{wk}:got-{gk}"),
                        format!("caller register {k}: reference {want:?}, walker saw {got:?}"),
                        detail(),
                    );
                }
            }
        }
    }
}

fn outcome_label(prefix: &str, exp: &CfiExpect, hosted: Option<&str>) -> String {
    match exp {
        CfiExpect::Open => format!("{prefix}: open (signedness of / %)"),
        CfiExpect::Malformed => format!("{prefix}: malformed rules (weak oracle)"),
        CfiExpect::Fail(w) => format!("{prefix}: None ({w})"),
        CfiExpect::Some { regs, .. } => match hosted.and_then(|h| regs.get(h)) {
            Some(RegOut::Cleared) => format!("{prefix}: Some, hosted register rule failed -> cleared"),
            Some(RegOut::Open) => format!("{prefix}: Some, hosted register open"),
            _ => format!("{prefix}: Some"),
        },
    }
}

fn parse(text: &str) -> SymbolFile {
    SymbolFile::from_bytes(text.as_bytes()).unwrap_or_else(|e| panic!("harness: generated symbol file does not parse: {e:?}\n{text}"))
}

const BASE: u64 = 0x1000;
fn module() -> SimpleModule {
    SimpleModule { base_address: Some(BASE), size: Some(0x100), ..Default::default() }
}

// ---------------------------------------------------------------------------------------------
// space 1: expressions

const HOSTS: &[&str] = &[".cfa", ".ra", "c"];
fn host_rules(host: usize, es: &str) -> String {
    match host {
        0 => format!(".cfa: {es} .ra: .cfa ^"),
        1 => format!(".cfa: $b 8 + .ra: {es}"),
        _ => format!(".cfa: $b 8 + .ra: 5 c: {es} a: $a b: .undef"),
    }
}

/// values of the expression language (everything in TOKENS that is not an operator)
fn value_tokens(reduced: bool) -> Vec<&'static str> {
    let drop: &[&str] = if reduced { &["2", "3", "a", "b", "zz", "-9223372036854775809", "!!"] } else { &[] };
    TOKENS.iter().copied().filter(|t| !["+", "-", "*", "/", "%", "@", "^"].contains(t) && !drop.contains(t)).collect()
}
fn wf_gen(len: usize, reduced: bool) -> refcfi::wf::WellFormed {
    use refcfi::wf::{Class, WellFormed};
    WellFormed::new(
        vec![
            Class { tokens: value_tokens(reduced), need: 0, delta: 1 },
            Class { tokens: vec!["+", "-", "*", "/", "%", "@"], need: 2, delta: -1 },
            Class { tokens: vec!["^"], need: 1, delta: 0 },
        ],
        len,
        1,
    )
}

/// every token sequence up to `maxlen`
fn expr_space(maxlen: u32) -> Space {
    let k = TOKENS.len() as u64;
    let n = seq_count(k, maxlen);
    expr_space_over("expr", n, move |i| seq_unrank(i, k, maxlen).into_iter().map(|t| TOKENS[t as usize]).collect())
}
/// every well-formed (stack-valid) expression of exactly `len` tokens
fn wf_space(len: usize, reduced: bool) -> Space {
    let g = wf_gen(len, reduced);
    let name: &'static str = Box::leak(format!("expr-wellformed-{len}").into_boxed_str());
    expr_space_over(name, g.count(), move |i| g.unrank(i))
}

/// Deep expressions: the language has no limit on pending operands. For every depth n in 1..=64 and every shape:
/// n operands then n-1 binary operators (all pending at once), the same right-nested with memory reads, and a
/// left-leaning chain of the same length that never holds more than two operands.
fn deep_space() -> Space {
    const OPS: [&str; 3] = ["+", "-", "*"];
    const NMAX: u64 = 64;
    let radices = [NMAX, OPS.len() as u64, 3];
    let nseq = product(&radices);
    expr_space_over("expr-deep", nseq, move |i| {
        let d = unrank(i, &radices);
        let (n, op, shape) = (d[0] as usize + 1, OPS[d[1] as usize], d[2]);
        let mut v: Vec<&'static str> = vec![];
        match shape {
            0 => {
                v.extend(std::iter::repeat("3").take(n));
                v.extend(std::iter::repeat(op).take(n - 1));
            }
            1 => {
                // operands that are registers and the CFA, read through memory at the end
                for k in 0..n {
                    v.push(["$a", ".cfa", "8", "$b"][k % 4]);
                }
                v.extend(std::iter::repeat(op).take(n - 1));
                v.push("^");
            }
            _ => {
                v.push("3");
                for _ in 1..n {
                    v.push("2");
                    v.push(op);
                }
            }
        }
        v
    })
}

fn expr_space_over(name: &'static str, nseq: u64, seq: impl Fn(u64) -> Vec<&'static str> + Send + Sync + Clone + 'static) -> Space {
    let n = nseq * HOSTS.len() as u64;
    let gen = move |idx: u64| -> (usize, Vec<&'static str>) {
        let host = (idx % HOSTS.len() as u64) as usize;
        (host, seq(idx / HOSTS.len() as u64))
    };
    let gen2 = gen.clone();
    let run = move |idx: u64, l: &mut Local| {
        let (host, toks) = gen(idx);
        let es = toks.join(" ");
        let rules = host_rules(host, &es);
        let text = format!("MODULE Linux x86_64 000000000000000000000000000000000 m\nSTACK CFI INIT 10 20 {rules}\n");
        let sf = parse(&text);
        let records = [CfiRecord { address: 0x10, size: 0x20, init_rules: rules.clone(), deltas: vec![] }];
        let module = module();
        let uses_mem = host == 0 || toks.contains(&"^");
        let mut images: Vec<(usize, bool)> = (0..REGFILES.len()).map(|rf| (rf, true)).collect();
        if uses_mem {
            images.push((0, false));
        }
        for (rf, readable) in images {
            let exp = refcfi::unwind(&records, 0x15, &Env { rf, readable });
            let mut m = Mock::new(BASE + 0x15, rf, readable);
            l.eval();
            let res = guard(|| sf.walk_frame(&module, &mut m));
            let hosted = if host == 2 { Some("c") } else { None };
            l.outcome(&outcome_label(&format!("{name} in {}", HOSTS[host]), &exp, hosted));
            if !matches!(exp, CfiExpect::Malformed) {
                l.distinct(&(host, rf, readable, &exp));
            }
            // an operator counts as exercised when the hosted rule evaluated to a value
            if let CfiExpect::Some { regs, .. } = &exp {
                if host != 2 || matches!(regs.get("c"), Some(RegOut::Set(_))) {
                    for op in OPERATORS {
                        if toks.contains(op) {
                            l.count(&format!("successful_evaluations_using[{op}]"), 1);
                        }
                    }
                }
            }
            compare(l, &exp, res, &m, &|| json!({"rules": rules, "regfile": REGFILES[rf], "memory_readable": readable, "reference": format!("{exp:?}")}));
        }
    };
    let desc = move |idx: u64| {
        let (host, toks) = gen2(idx);
        json!({"host": HOSTS[host], "expr": toks.join(" "), "rules": host_rules(host, &toks.join(" "))})
    };
    Space::new(name, n, run, desc)
}

// ---------------------------------------------------------------------------------------------
// space 2: record structure

const FRAGS: &[&str] = &[
    ".cfa: $b 8 +", ".cfa: $a", ".cfa: .cfa 8 +", ".ra: .cfa ^", ".ra: 5", ".ra: .undef", "a: .cfa 8 - ^", "$a: 1", "a: .undef",
    "b: $a 2 *", "c: $zz", "zz: 7", ".cfa:", "7",
];
const BASE_RULES: &str = ".cfa: $b 8 + .ra: .cfa ^";
/// (address of the first delta line in the file, address of the second)
/// The last three put both delta lines at ONE address: both are in effect from that address on. Which of two
/// same-address lines wins for one register is not documented, so those layouts are only run when the two
/// lines assign disjoint sets of registers (then the order cannot matter).
const LAYOUTS: &[(u64, u64)] = &[(0x14, 0x18), (0x18, 0x14), (0x10, 0x2f), (0x08, 0x14), (0x14, 0x30), (0x14, 0x14), (0x10, 0x10), (0x2f, 0x2f)];
fn labels(rules: &str) -> Vec<&str> {
    rules.split_whitespace().filter(|t| t.ends_with(':')).collect()
}
const LOOKUPS: &[u64] = &[0x0f, 0x10, 0x13, 0x14, 0x16, 0x18, 0x2e, 0x2f, 0x30, 0x40];

fn struct_space(delta1_len: u32) -> Space {
    let mut inits: Vec<String> = FRAGS.iter().map(|f| f.to_string()).collect();
    for a in FRAGS {
        for b in FRAGS {
            inits.push(format!("{a} {b}"));
        }
    }
    inits.push(BASE_RULES.to_string());
    for a in FRAGS {
        inits.push(format!("{BASE_RULES} {a}"));
    }
    // menu of one delta line: none, one fragment, (two fragments: only the first delta line in the
    // file and only at the larger bound; the layouts put that line at the lower and the higher address)
    let mut deltas: Vec<Option<String>> = vec![None];
    deltas.extend(FRAGS.iter().map(|f| Some(f.to_string())));
    let n_short = deltas.len() as u64;
    if delta1_len >= 2 {
        for a in FRAGS {
            for b in FRAGS {
                deltas.push(Some(format!("{a} {b}")));
            }
        }
    }
    // last factor: where the block under test stands in the FILE (between the other two / last, ending the file)
    let radices = [inits.len() as u64, deltas.len() as u64, n_short, LAYOUTS.len() as u64, 2];
    let n = product(&radices);
    let inits = std::sync::Arc::new(inits);
    let deltas = std::sync::Arc::new(deltas);
    let (i2, d2) = (inits.clone(), deltas.clone());
    let deltas_run = deltas.clone();
    let build = move |idx: u64| -> (String, Vec<CfiRecord>) {
        let d = unrank(idx, &radices);
        let init = &i2[d[0] as usize];
        let (a1, a2) = LAYOUTS[d[3] as usize];
        let mut text = String::from("MODULE Linux x86_64 000000000000000000000000000000000 m\nSTACK CFI INIT 0 10 .cfa: 1000 .ra: 2000\nSTACK CFI 8 a: 3000\n");
        if d[4] == 1 {
            text += "STACK CFI INIT 30 10 .cfa: 4000 .ra: 5000 b: 6000\n";
        }
        text += &format!("STACK CFI INIT 10 20 {init}\n");
        let mut ds = vec![];
        for (addr, which) in [(a1, d[1]), (a2, d[2])] {
            if let Some(r) = &d2[which as usize] {
                text += &format!("STACK CFI {addr:x} {r}\n");
                ds.push((addr, r.clone()));
            }
        }
        if d[4] == 0 {
            text += "STACK CFI INIT 30 10 .cfa: 4000 .ra: 5000 b: 6000\n";
        }
        let recs = vec![
            CfiRecord { address: 0, size: 0x10, init_rules: ".cfa: 1000 .ra: 2000".into(), deltas: vec![(8, "a: 3000".into())] },
            CfiRecord { address: 0x10, size: 0x20, init_rules: init.clone(), deltas: ds },
            CfiRecord { address: 0x30, size: 0x10, init_rules: ".cfa: 4000 .ra: 5000 b: 6000".into(), deltas: vec![] },
        ];
        (text, recs)
    };
    let b2 = build.clone();
    let run = move |idx: u64, l: &mut Local| {
        let d = unrank(idx, &radices);
        if d[1] == 0 && d[2] == 0 && d[3] != 0 {
            return; // no delta lines: the layouts coincide
        }
        {
            let (a1, a2) = LAYOUTS[d[3] as usize];
            if a1 == a2 {
                // same-address delta lines: only with two lines that name disjoint registers
                match (&deltas_run[d[1] as usize], &deltas_run[d[2] as usize]) {
                    (Some(x), Some(y)) => {
                        let (lx, ly) = (labels(x), labels(y));
                        // `$a:` and `a:` name one register
                        let norm = |t: &str| t.trim_start_matches('$').to_string();
                        if lx.is_empty() || ly.is_empty() || lx.iter().any(|a| ly.iter().any(|b| norm(a) == norm(b))) {
                            return;
                        }
                    }
                    _ => return,
                }
            }
        }
        let (text, recs) = build(idx);
        let sf = parse(&text);
        let module = module();
        for rf in [0usize, 2] {
            // below the module base nothing can match (addresses are module relative)
            {
                let mut m = Mock::new(BASE - 1, rf, true);
                l.eval();
                let res = guard(|| sf.walk_frame(&module, &mut m));
                compare(l, &CfiExpect::Fail("below-module-base"), res, &m, &|| json!({"file": text, "ip": BASE - 1}));
            }
            for &rel in LOOKUPS {
                let exp = refcfi::unwind(&recs, rel, &Env { rf, readable: true });
                let mut m = Mock::new(BASE + rel, rf, true);
                l.eval();
                let res = guard(|| sf.walk_frame(&module, &mut m));
                l.outcome(&outcome_label("structure", &exp, None));
                if (0x10..0x30).contains(&rel) && !matches!(exp, CfiExpect::Malformed) {
                    let lines = refcfi::lines_in_effect(&recs[1], rel).unwrap_or_default();
                    l.distinct(&("struct", rf, lines));
                    l.count(&format!("lookups_with_{}_delta_lines_in_effect", lines_count(&recs[1], rel)), 1);
                }
                compare(l, &exp, res, &m, &|| json!({"file": text, "lookup_rel": format!("{rel:#x}"), "regfile": REGFILES[rf], "reference": format!("{exp:?}")}));
            }
        }
    };
    let desc = move |idx: u64| {
        let (text, _) = b2(idx);
        json!({"file": text, "lookups_rel": LOOKUPS, "regfiles": [REGFILES[0], REGFILES[2]]})
    };
    Space::new("structure", n, run, desc)
}
fn lines_count(rec: &CfiRecord, rel: u64) -> usize {
    rec.deltas.iter().filter(|d| d.0 <= rel).count()
}

// ---------------------------------------------------------------------------------------------
// space 3: the real walk_stack (CfiStackWalker callbacks) on a CFI-only symbol file, for a 64-bit CPU
// (amd64) and two 32-bit CPUs (x86, arm). Rule evaluation is 64-bit on every CPU; a value that cannot be
// represented in the CPU's register cannot be "set from its rule", so the register is unknown in the caller.

const MOD: u64 = 0x4000_0000;
const STACK: u64 = 0x6000_0000;

/// One CPU flavour of the walk space. `regs` = the three registers that get a rule: `regs[0]` and `regs[1]` are
/// forwarded implicitly by the ABI table (callee-saved), `regs[2]` is not; each is given as the list of its
/// documented label spellings, canonical name first (minidump/src/context.rs: ARM r11 = fp, r14 = lr; ARM64
/// x29 = fp, x30 = lr — the numeric spellings are the ones Breakpad's dump_syms writes). `helper` is read by a
/// rule and `fp` by a CFA rule.
struct WalkCpu {
    /// tag of the space (and of its counters / outcome classes)
    name: &'static str,
    /// CPU: selects the raw context type; words the signatures
    kind: &'static str,
    arch: &'static str,
    /// register width in bytes (= width of one stack word)
    w: u64,
    /// `$` for the x86 family, nothing for ARM (the parser accepts both everywhere)
    sigil: &'static str,
    ip: &'static str,
    sp: &'static str,
    fp: &'static str,
    regs: [&'static [&'static str]; 3],
    /// rule menu of each of the three registers (entry 0 = no rule)
    rules: &'static [Option<&'static str>],
    helper: &'static str,
    /// registers the unwinder forwards implicitly (its ABI table): only used to word the signature
    callee_saved: &'static [&'static str],
    /// return address - instruction of the caller frame
    ip_adjust: u64,
    callee: &'static [(&'static str, u64)],
}
const WALK_CPUS: &[WalkCpu] = &[
    WalkCpu {
        name: "amd64", kind: "amd64", arch: "x86_64", w: 8, sigil: "$", ip: "rip", sp: "rsp", fp: "rbp", regs: [&["rbx"], &["r12"], &["rax"]], rules: WALK_RULES, helper: "r15",
        callee_saved: &["rbx", "rbp", "r12", "r13", "r14", "r15"], ip_adjust: 1,
        callee: &[("rip", MOD + 0x1010), ("rsp", STACK), ("rbp", STACK + 7 * 8), ("rbx", 0xb0b), ("r12", 0x1212), ("r15", 0x1515), ("rax", 0xaaaa)],
    },
    WalkCpu {
        name: "x86", kind: "x86", arch: "x86", w: 4, sigil: "$", ip: "eip", sp: "esp", fp: "ebp", regs: [&["ebx"], &["esi"], &["ecx"]], rules: WALK_RULES, helper: "edi",
        callee_saved: &["ebp", "ebx", "edi", "esi"], ip_adjust: 1,
        callee: &[("eip", MOD + 0x1010), ("esp", STACK), ("ebp", STACK + 7 * 4), ("ebx", 0xb0b), ("esi", 0x5151), ("edi", 0xd1d1), ("ecx", 0xcccc)],
    },
    WalkCpu {
        name: "arm", kind: "arm", arch: "arm", w: 4, sigil: "", ip: "pc", sp: "sp", fp: "fp", regs: [&["r4"], &["r5"], &["r1"]], rules: WALK_RULES, helper: "r6",
        callee_saved: ARM_CALLEE_SAVED, ip_adjust: 2,
        callee: &[("pc", MOD + 0x1010), ("sp", STACK), ("fp", STACK + 7 * 4), ("r4", 0x4040), ("r5", 0x5050), ("r6", 0x6060), ("r1", 0x1111)],
    },
    // label spellings: the frame pointer (callee-saved) and the link register (not forwarded) under both of their
    // names, next to a callee-saved register that has one name only
    WalkCpu {
        name: "arm-alias", kind: "arm", arch: "arm", w: 4, sigil: "", ip: "pc", sp: "sp", fp: "fp", regs: [&["fp", "r11"], &["r4"], &["lr", "r14"]], rules: WALK_RULES_ALIAS_32, helper: "r6",
        callee_saved: ARM_CALLEE_SAVED, ip_adjust: 2,
        callee: &[("pc", MOD + 0x1010), ("sp", STACK), ("fp", STACK + 7 * 4), ("r4", 0x4040), ("r6", 0x6060), ("lr", MOD + 0x5510)],
    },
    WalkCpu {
        name: "arm64", kind: "arm64", arch: "arm64", w: 8, sigil: "", ip: "pc", sp: "sp", fp: "fp", regs: [&["fp", "x29"], &["x19"], &["lr", "x30"]], rules: WALK_RULES_ALIAS_64, helper: "x20",
        callee_saved: &["x19", "x20", "x21", "x22", "x23", "x24", "x25", "x26", "x27", "x28", "fp"], ip_adjust: 4,
        callee: &[("pc", MOD + 0x1010), ("sp", STACK), ("fp", STACK + 7 * 8), ("x19", 0x1919), ("x20", 0x2020), ("lr", MOD + 0x5510)],
    },
    // 32-bit MIPS: a 32-bit machine whose context keeps 64-bit register slots (values are stored as computed,
    // not sign-extended)
    WalkCpu {
        name: "mips32", kind: "mips", arch: "mips", w: 4, sigil: "$", ip: "pc", sp: "sp", fp: "fp", regs: [&["s0"], &["s1"], &["ra"]], rules: WALK_RULES, helper: "s2",
        callee_saved: &["s0", "s1", "s2", "s3", "s4", "s5", "s6", "s7", "gp", "sp", "fp"], ip_adjust: 8,
        callee: &[("pc", MOD + 0x1010), ("sp", STACK), ("fp", STACK + 7 * 4), ("s0", 0x5050), ("s1", 0x5151), ("s2", 0x5252), ("ra", MOD + 0x5510)],
    },
];
const ARM_CALLEE_SAVED: &[&str] = &["r4", "r5", "r6", "r7", "r8", "r9", "r10", "fp"];

/// rule menu of one register; `{W2}` = two stack words, `{S}` = sigil, `{H}` = helper register.
/// The last five are about the register width: 64-bit wrapping results that do not fit in 32 bits ("negative"
/// difference, carry past 2^32, the smallest such literal), the largest value that fits, and a rule whose
/// intermediate value is wider than 32 bits while its result fits.
const WALK_RULES: &[Option<&str>] = &[
    None,
    Some(".cfa {W2} - ^"),
    Some(".undef"),
    Some("{S}{H} 1 +"),
    Some("{S}nope"),
    // a register the CPU has, spelled in upper case: names are case-sensitive, so it is an unknown one
    Some("{S}{HU} 1 +"),
    Some("4 .cfa -"),
    Some(".cfa 4294967296 +"),
    Some("4294967296"),
    Some("4294967295"),
    Some(".cfa 4294967296 + 4294967296 -"),
    // the very last word of the thread's stack memory, and the word that would lie one past it
    Some("{LAST} ^"),
    Some("{LAST} {W} + ^"),
];
/// rule menus of the label-spelling spaces (every rule is written under each spelling of its register): saved on
/// the stack, two failing rules, computed from another register, and values around the 32-bit register width.
/// ARM64 strips pointer-authentication bits from fp/lr/pc (outside this property): its menu stays below 2^47.
const WALK_RULES_ALIAS_32: &[Option<&str>] =
    &[None, Some(".cfa {W2} - ^"), Some(".undef"), Some("{S}{H} 1 +"), Some("4 .cfa -"), Some("4294967296"), Some("4294967295")];
const WALK_RULES_ALIAS_64: &[Option<&str>] =
    &[None, Some(".cfa {W2} - ^"), Some(".undef"), Some("{S}{H} 1 +"), Some("{S}nope"), Some("4294967296"), Some("4294967295")];
/// `.cfa` rules (both fit in every register width): four words above sp, one word above fp
const WALK_CFA: &[&str] = &["{S}{SP} {W4} +", "{S}{FP} {W} +"];
const WALK_RA: &[&str] = &[".cfa {W} - ^", ".undef"];
/// callee validity sets: all; ip sp + the first callee-saved rule register + helper; ip sp only;
/// ip sp fp + the caller-saved rule register + helper
const WALK_VALID: usize = 4;
fn walk_valid(cpu: &WalkCpu, vi: usize) -> Option<Vec<&'static str>> {
    match vi {
        0 => None,
        1 => Some(vec![cpu.ip, cpu.sp, cpu.regs[0][0], cpu.helper]),
        2 => Some(vec![cpu.ip, cpu.sp]),
        _ => Some(vec![cpu.ip, cpu.sp, cpu.fp, cpu.regs[2][0], cpu.helper]),
    }
}
fn walk_subst(cpu: &WalkCpu, t: &str) -> String {
    t.replace("{W4}", &(4 * cpu.w).to_string())
        .replace("{W2}", &(2 * cpu.w).to_string())
        .replace("{W}", &cpu.w.to_string())
        .replace("{SP}", cpu.sp)
        .replace("{FP}", cpu.fp)
        .replace("{S}", cpu.sigil)
        .replace("{LAST}", &(STACK + (WALK_WORDS - 1) * cpu.w).to_string())
        .replace("{HU}", &cpu.helper.to_uppercase())
        .replace("{H}", cpu.helper)
}
/// largest value a register of the CPU holds
fn walk_reg_max(cpu: &WalkCpu) -> u64 {
    if cpu.w == 8 { u64::MAX } else { u32::MAX as u64 }
}
const WALK_WORDS: u64 = 32;
fn walk_word(cpu: &WalkCpu, i: u64) -> u64 {
    match i {
        3 => MOD + 0x2020, // cfa(sp + 4 words) - 1 word
        7 => MOD + 0x3030, // cfa(fp + 1 word) - 1 word = fp = word 7
        _ => (if cpu.w == 8 { 0x7000_0000_0000 } else { 0x7000_0000 }) + i * 0x11,
    }
}

struct WalkEnv {
    cpu: &'static WalkCpu,
    valid: Option<Vec<&'static str>>,
}
impl CfiEnv for WalkEnv {
    fn callee_reg(&self, name: &str) -> Option<u64> {
        if let Some(v) = &self.valid {
            if !v.contains(&name) {
                return None;
            }
        }
        self.cpu.callee.iter().find(|r| r.0 == name).map(|r| r.1)
    }
    fn mem(&self, addr: u64) -> Option<u64> {
        // register-sized reads
        let w = self.cpu.w;
        if addr >= STACK && addr - STACK <= WALK_WORDS * w - w {
            assert!((addr - STACK) % w == 0, "harness: unaligned stack reads are outside the walk menu");
            Some(walk_word(self.cpu, (addr - STACK) / w))
        } else {
            None
        }
    }
}

/// why the reference says a register with a rule is unknown in the caller
#[derive(Clone, Copy, PartialEq, Eq)]
enum Unknown {
    RuleFails,
    /// the rule evaluates (64-bit), the value is wider than the register
    TooWide(u64),
}

fn walk_context(cpu: &WalkCpu) -> MinidumpRawContext {
    macro_rules! fill {
        ($ty:ty, $variant:ident, $reg:ty) => {{
            let mut c = <$ty>::default();
            for (n, v) in cpu.callee {
                c.set_register(n, <$reg>::try_from(*v).expect("harness: callee value fits the register")).expect("harness: register name");
            }
            MinidumpRawContext::$variant(c)
        }};
    }
    match cpu.kind {
        "amd64" => fill!(CONTEXT_AMD64, Amd64, u64),
        "x86" => fill!(CONTEXT_X86, X86, u32),
        "arm" => fill!(CONTEXT_ARM, Arm, u32),
        "arm64" => fill!(CONTEXT_ARM64, Arm64, u64),
        "mips" => fill!(CONTEXT_MIPS, Mips, u64),
        _ => unreachable!(),
    }
}

fn walk_space(cpu: &'static WalkCpu) -> Space {
    // one register: no rule, or (rule of the menu, spelling of the label)
    let nr = |i: usize| 1 + (cpu.rules.len() as u64 - 1) * cpu.regs[i].len() as u64;
    let radices = [nr(0), nr(1), nr(2), WALK_CFA.len() as u64, WALK_RA.len() as u64, WALK_VALID as u64];
    let n = product(&radices);
    let rules_of = move |idx: u64| -> (String, usize) {
        let d = unrank(idx, &radices);
        let mut r = format!(".cfa: {} .ra: {}", walk_subst(cpu, WALK_CFA[d[3] as usize]), walk_subst(cpu, WALK_RA[d[4] as usize]));
        for (i, labels) in cpu.regs.iter().enumerate() {
            if d[i] > 0 {
                let (rule, label) = (1 + (d[i] - 1) / labels.len() as u64, labels[((d[i] - 1) % labels.len() as u64) as usize]);
                let e = cpu.rules[rule as usize].expect("harness: only entry 0 of a rule menu is 'no rule'");
                r += &format!(" {}{label}: {}", cpu.sigil, walk_subst(cpu, e));
            }
        }
        (r, d[5] as usize)
    };
    let cname = cpu.name;
    let run = move |idx: u64, l: &mut Local| {
        let (rules, vi) = rules_of(idx);
        let sym = format!("MODULE Linux {} 000000000000000000000000000000000 m\nSTACK CFI INIT 1000 100 {rules}\n", cpu.arch);
        let recs = [CfiRecord { address: 0x1000, size: 0x100, init_rules: rules.clone(), deltas: vec![] }];
        let valid_names = walk_valid(cpu, vi);
        let exp = refcfi::unwind(&recs, 0x1010, &WalkEnv { cpu, valid: valid_names.clone() });
        let valid = match &valid_names {
            None => MinidumpContextValidity::All,
            Some(v) => MinidumpContextValidity::Some(v.iter().copied().collect::<HashSet<&'static str>>()),
        };
        let ctx = MinidumpContext { raw: walk_context(cpu), valid };
        let bytes: Vec<u8> = (0..WALK_WORDS).flat_map(|i| walk_word(cpu, i).to_le_bytes()[..cpu.w as usize].to_vec()).collect();
        let mem = MinidumpMemory { desc: Default::default(), base_address: STACK, size: bytes.len() as u64, bytes: &bytes, endian: scroll::LE };
        let ml = MinidumpModuleList::from_modules(vec![MinidumpModule::new(MOD, 0x10000, "m")]);
        let cpu_kind = match cpu.kind {
            "amd64" => Cpu::X86_64,
            "x86" => Cpu::X86,
            "arm" => Cpu::Arm,
            "mips" => Cpu::Mips,
            _ => Cpu::Arm64,
        };
        let si = SystemInfo { os: Os::Linux, os_version: None, os_build: None, cpu: cpu_kind, cpu_info: None, cpu_microcode_version: None, cpu_count: 1 };
        let mut syms = HashMap::new();
        syms.insert("m".to_string(), sym.clone());
        let symbolizer = Symbolizer::new(string_symbol_supplier(syms));
        let mut cs = CallStack::with_context(ctx);
        l.eval();
        let r = guard(|| {
            refcfi::block_on(walk_stack(0, |i: usize, _: &minidump_unwind::StackFrame| assert!(i < 64, "harness: frame budget"), &mut cs, Some(UnifiedMemory::Memory(&mem)), &ml, &si, &symbolizer))
        });
        let detail = || json!({"cpu": cname, "symbols": sym, "callee_validity": format!("{valid_names:?}"), "callee_registers": format!("{:x?}", cpu.callee), "reference_64bit": format!("{exp:?}")});
        if let Err(p) = r {
            if p.msg.contains("harness:") {
                panic!("{}", p.msg);
            }
            l.panic_violation(&p, detail());
            return;
        }
        let w = format!("{}.walk_stack.cfi", cpu.kind);
        let f1 = cs.frames.get(1).filter(|f| f.trust == FrameTrust::CallFrameInfo);
        match &exp {
            CfiExpect::Some { cfa, ra, regs } => {
                let max = walk_reg_max(cpu);
                assert!(*cfa <= max && *ra <= max, "harness: the cfa/ra rules of the walk menu must fit the register");
                // projection of the 64-bit reference on the register width; the reference knows a rule by the
                // spelling of its label, the caller frame is asked for the register by its canonical name
                struct Want<'x> {
                    reg: &'static str,
                    label: &'x str,
                    val: Result<u64, Unknown>,
                }
                let want: Vec<Want> = regs
                    .iter()
                    .map(|(n, o)| Want {
                        reg: cpu.regs.iter().find(|labels| labels.contains(&n.as_str())).expect("harness: every label of the walk menu is a spelling of a menu register")[0],
                        label: n.as_str(),
                        val: match o {
                            RegOut::Set(v) if *v <= max => Ok(*v),
                            RegOut::Set(v) => Err(Unknown::TooWide(*v)),
                            RegOut::Cleared => Err(Unknown::RuleFails),
                            RegOut::Open => panic!("harness: walk menu must have a definite reference"),
                        },
                    })
                    .collect();
                let wide = want.iter().filter(|x| matches!(x.val, Err(Unknown::TooWide(_)))).count() as u64;
                l.outcome(&format!("{cname} walk_stack: reference Some"));
                if wide > 0 {
                    l.count(&format!("walk_register_rules_with_value_wider_than_register[{cname}]"), wide);
                }
                for x in want.iter().filter(|x| x.label != x.reg) {
                    let class = match x.val {
                        Ok(_) => "set",
                        Err(Unknown::RuleFails) => "rule-fails",
                        Err(Unknown::TooWide(_)) => "value-wider-than-register",
                    };
                    l.count(&format!("walk_rules_under_an_alias_label[{cname}][{class}]"), 1);
                    if cpu.kind == "arm64" {
                        // pointer-authentication stripping of fp / lr is not part of this property
                        assert!(x.val.map_or(true, |v| v < 1 << 47), "harness: arm64 fp/lr values of the walk menu must stay below 2^47");
                    }
                }
                l.distinct(&("walk", cname, vi, cfa, ra, want.iter().map(|x| (x.label.to_string(), x.val.ok())).collect::<Vec<_>>()));
                let Some(f) = f1 else {
                    l.violation(format!("{w}:no-cfi-frame"), "the caller frame was not produced by CFI although the rules evaluate", detail());
                    return;
                };
                let get = |n: &str| f.context.get_register(n);
                if get(cpu.sp) != Some(*cfa) || get(cpu.ip) != Some(*ra) || f.instruction != ra - cpu.ip_adjust {
                    l.violation(
                        format!("{w}:sp-ip"),
                        format!("caller {}/{} {:?}/{:?} instruction {:#x}, reference cfa {cfa:#x} ra {ra:#x}", cpu.sp, cpu.ip, get(cpu.sp), get(cpu.ip), f.instruction),
                        detail(),
                    );
                }
                for Want { reg, label, val: want } in &want {
                    let got = get(reg);
                    if got == want.ok() {
                        continue;
                    }
                    let callee_val = cpu.callee.iter().find(|r| r.0 == *reg).map(|r| r.1);
                    let valid_in_callee = valid_names.as_ref().map_or(true, |v| v.contains(reg));
                    let forwarded = cpu.callee_saved.contains(reg) && valid_in_callee && got.is_some() && got == callee_val;
                    // a rule written under the other spelling of its register (`r11:` for fp) is told apart
                    let alias = label != reg;
                    let a = if alias { "alias-label:" } else { "" };
                    let wider = |v: &u64| format!(" (its rule evaluates to {v:#x}, wider than the register: it cannot be set from its rule)");
                    // the register-width and label-spelling outcomes come from CPU-independent code (CfiStackWalker):
                    // one signature for all CPUs
                    let (sig, why) = match want {
                        Ok(_) => (format!("{w}:caller-register:{a}expected-set"), String::new()),
                        // a register of the unwinder's forwarding table that keeps the callee's value although its
                        // rule, written under the alias spelling, failed or produced an unrepresentable value
                        Err(u) if alias && forwarded => (
                            "walk_stack.cfi:caller-register:alias-label:failed-rule:forwarded-callee-value-kept".to_string(),
                            match u {
                                Unknown::RuleFails => " (its rule fails)".to_string(),
                                Unknown::TooWide(v) => wider(v),
                            },
                        ),
                        Err(Unknown::RuleFails) => (format!("{w}:caller-register:{a}expected-unknown"), " (its rule fails)".to_string()),
                        // a register of the unwinder's forwarding table that keeps the callee's value although
                        // its rule produced another (unrepresentable) one is told apart from the general case
                        Err(Unknown::TooWide(v)) if forwarded => ("walk_stack.cfi:caller-register:value-wider-than-register:forwarded-callee-value-kept".to_string(), wider(v)),
                        Err(Unknown::TooWide(v)) => (format!("walk_stack.cfi:caller-register:{a}value-wider-than-register:expected-unknown"), wider(v)),
                    };
                    let spelled = if alias { format!(" (rule label `{label}:`)") } else { String::new() };
                    l.violation(sig, format!("{cname}: caller {reg}{spelled} = {got:x?}, reference {:x?}{why}", want.ok()), detail());
                }
            }
            CfiExpect::Fail(why) => {
                l.outcome(&format!("{cname} walk_stack: reference None ({why})"));
                if f1.is_some() {
                    l.violation(format!("{w}:cfi-frame-despite-failure({why})"), "a CFI-trust caller frame exists although the rules fail", detail());
                }
            }
            _ => panic!("harness: walk menu must have a definite reference"),
        }
    };
    let desc = move |idx: u64| {
        let (r, vi) = rules_of(idx);
        json!({"cpu": cname, "rules": r, "callee_validity": format!("{:?}", walk_valid(cpu, vi))})
    };
    let name: &'static str = Box::leak(format!("{cname}-walk_stack").into_boxed_str());
    Space::new(name, n, run, desc)
}

fn main() {
    run_check("C06", |ctx| {
        let maxlen = ctx.tier.pick(4, 5);
        let dlen = ctx.tier.pick(1, 2);
        let mut def = CheckDef::new(
            "C06",
            "exploration",
            "bounded-exhaustive differential: (expr) every token sequence of length 0..=L over the 26-token alphabet (and, beyond L, every WELL-FORMED — stack never underflows, one value left — expression of exactly L+1 tokens over the full alphabet and of L+2 tokens over a reduced value alphabet) hosted in the .cfa rule, the .ra rule and a general-register rule of a one-record symbol file, each evaluated by the real parser + SymbolFile::walk_frame through a mock FrameWalker on 4 register files (+ the unreadable-memory image when memory is used) and compared (Some/None, cfa, ra, final set/cleared/untouched state of every caller register) with the reference interpreter vh::refcfi; (structure) every INIT rule list (1-2 fragments, or base + 0-1) x two delta records (the first in the file 0..=D fragments, the second 0..=1) x 5 address layouts (file order reversed, at the range bounds, below the INIT start, at the range end) with neighbour records before and after, looked up at 10 addresses + below the module base on 2 register files; (<cpu>-walk_stack, cpu in amd64 | x86 | arm | mips32) 10^3 register rule choices (per register: no rule, saved on the stack, .undef, computed from another register, unknown register name, and five register-width rules: `4 .cfa -`, `.cfa 4294967296 +`, `4294967296`, `4294967295`, `.cfa 4294967296 + 4294967296 -`) for two callee-saved registers and one caller-saved register x 2 cfa x 2 ra rules (both fit the register) x 4 callee validity sets through the real walk_stack with a real CONTEXT_AMD64 / CONTEXT_X86 / CONTEXT_ARM / CONTEXT_MIPS (32-bit flavour) and register-sized stack words; the 64-bit reference is projected on the register width: a register rule whose value does not fit the register leaves that register unknown in the caller frame and changes nothing else; (arm-alias-walk_stack with CONTEXT_ARM, arm64-walk_stack with CONTEXT_ARM64: label spellings) rules for the frame pointer (callee-saved; labels `fp:` | `r11:` on ARM, `fp:` | `x29:` on ARM64), one callee-saved register with a single name (r4 / x19) and the link register (never forwarded; `lr:` | `r14:` on ARM, `lr:` | `x30:` on ARM64): per register no rule, or one of 6 rules (saved on the stack, .undef, computed from another register, `4294967296`, `4294967295`, and `4 .cfa -` on ARM / an unknown register name on ARM64) under each spelling of its label — 13 x 7 x 13 choices — x 2 cfa x 2 ra rules x 4 callee validity sets; a record never carries two spellings of one register; same oracle, the caller register is read by its canonical name: whatever the spelling of the label, a rule that evaluates to a representable value sets the register and a rule that fails or whose value is not representable leaves it unknown. distinct_nontrivial = distinct (host, register file, memory image, reference outcome incl. values) for expr; distinct (rule lines in effect, register file) for structure; distinct (validity, reference outcome per label as spelled) for the walk.",
        );
        def.assumptions = vec![
            "the reference is written from the module documentation of walker.rs and the property statement; '@' truncates the lhs to a multiple of the rhs, which must be a power of two; zero is not a power of two".into(),
            "carve-out: '/' and '%' with an operand >= 2^63 give an unspecified value (signedness undocumented, FIXME in the source); everything computed from it is not compared, definite failures of the same rule still are".into(),
            "carve-out: syntactically malformed rule lines (empty EXPR, first token not 'REG:') only require: no panic, and Some implies cfa and ra were reported".into(),
            "delta records with equal addresses are run only when the two lines assign disjoint registers (which line wins for one register is undocumented); carve-out: tokens with '$' inside a word, labels that alias one register under two names (x29/fp: HashMap order, F10, belongs to C13) are not in the alphabet".into(),
            "a rule for a register name the walker does not know has no observable effect (the walker rejects the name); the final state of such names is not compared".into(),
            "literals outside i64 and '.ra' in EXPR position are not values of the language: the rule fails".into(),
            "walk_stack label spellings: r11 = fp, r14 = lr on ARM and x29 = fp, x30 = lr on ARM64 are two names of one register (CpuContext::memoize_register / register_is_valid in minidump/src/context.rs; the numeric names are what Breakpad's dump_syms writes). r13/r15 (sp/pc) labels would collide with .cfa/.ra and are not in the menu; callee validity sets use the canonical names; alias spellings in EXPR position are not enumerated. ARM64 strips pointer-authentication bits (above bit 47 here) from the caller's fp/lr/pc, which the property does not describe: every fp/lr value of the ARM64 menu is below 2^47 (asserted)".into(),
            "walk_stack (amd64, x86, arm, arm64): only the stack pointer, the instruction pointer and registers that have a rule are compared, each by validity and value in the caller frame (which registers are forwarded implicitly is the unwinder's ABI table, not part of this property)".into(),
            "walk_stack on 32-bit CPUs: rules are evaluated in 64-bit wrapping arithmetic on every CPU (property statement); a register is 'set from its rule' only if the value is representable in the register, otherwise it is unknown in the caller like after any other rule failure — also when the unwinder would have forwarded the callee's value had there been no rule. Memory reads are register-sized. The .cfa/.ra rules of the menu always fit (what a non-representable cfa/ra does is not compared)".into(),
        ];
        def.extra.insert("expression_length_bound".into(), json!(maxlen));
        def.extra.insert("delta_record_fragments_bound".into(), json!(dlen));
        def.extra.insert("token_alphabet".into(), json!(TOKENS));
        def.extra.insert("structure_fragments".into(), json!(FRAGS));
        // beyond the all-sequences bound: only stack-valid expressions, one / two tokens longer
        let (wf_full, wf_reduced) = ctx.tier.pick((5usize, 6usize), (6, 7));
        def.extra.insert("wellformed_lengths".into(), json!({"full_value_alphabet": wf_full, "reduced_value_alphabet": wf_reduced, "reduced_values": value_tokens(true)}));
        def.spaces = vec![expr_space(maxlen), wf_space(wf_full, false), wf_space(wf_reduced, true), deep_space(), struct_space(dlen)];
        def.spaces.extend(WALK_CPUS.iter().map(walk_space));
        def.finish = Some(Box::new(|total, extra| {
            // every operator must have been part of a successful evaluation, and both result
            // classes must be populated: otherwise the space is vacuous (a harness error)
            let machinery = |m: String| -> ! {
                eprintln!("MACHINERY: {m}");
                std::process::exit(2)
            };
            for op in OPERATORS {
                let n = total.counters.get(&format!("successful_evaluations_using[{op}]")).copied().unwrap_or(0);
                if n == 0 {
                    machinery(format!("operator {op} was never part of a successful evaluation"));
                }
            }
            for cpu in WALK_CPUS.iter().filter(|c| c.w == 4) {
                let n = total.counters.get(&format!("walk_register_rules_with_value_wider_than_register[{}]", cpu.name)).copied().unwrap_or(0);
                if n == 0 {
                    machinery(format!("{} walk_stack: no register rule produced a value wider than the register", cpu.name));
                }
            }
            // every spelling class of the label spaces must be populated
            for cpu in WALK_CPUS.iter().filter(|c| c.regs.iter().any(|labels| labels.len() > 1)) {
                let mut classes = vec!["set", "rule-fails"];
                if cpu.w == 4 {
                    classes.push("value-wider-than-register");
                }
                for class in classes {
                    let n = total.counters.get(&format!("walk_rules_under_an_alias_label[{}][{class}]", cpu.name)).copied().unwrap_or(0);
                    if n == 0 {
                        machinery(format!("{} walk_stack: no rule under an alias label with reference outcome '{class}'", cpu.name));
                    }
                }
            }
            let some: u64 = total.outcomes.iter().filter(|(k, _)| k.contains(": Some")).map(|(_, v)| *v).sum();
            let none: u64 = total.outcomes.iter().filter(|(k, _)| k.contains(": None")).map(|(_, v)| *v).sum();
            if some < 1000 || none < 1000 {
                machinery(format!("outcome classes are vacuous: Some {some}, None {none}"));
            }
            extra.insert("reference_Some_cases".into(), json!(some));
            extra.insert("reference_None_cases".into(), json!(none));
            extra.insert("traces_validated_against_impl".into(), json!(total.evals));
        }));
        def
    })
}
