//! Shared by the C10 binaries (c10: scaled constants, model check + conformance; c10real: real
//! constants, conformance only).
//! C10 — streamed symbol parsing ignores chunking and hands every byte to the callback.
//! Engine E3: explicit-state model of the buffer machine (vh::bufmodel) searched over ALL
//! schedules per input, bound to the code by replaying schedules on the real
//! `SymbolFile::parse` and `SymbolFile::parse_async` (built with the scaled buffer constants,
//! cfg rust_minidump_verif_smallbuf: INITIAL 16 / MAX 256) and comparing observation by
//! observation. Verdicts are always decided on real-code observations.
use breakpad_symbols::{SymbolError, SymbolFile};
use std::collections::VecDeque;
use std::io::Read;
use std::sync::Arc;
use crate::bufmodel::{self as bm, Consts, Input, Out};
use crate::*;

// ------------------------------------------------------------------------------------------
// real-code runners

pub struct PlanReader<'a> {
    pub d: &'a [u8],
    pub plan: &'a [usize],
    pub i: usize,
    pub log: bm::ReadLog,
}
impl Read for PlanReader<'_> {
    fn read(&mut self, b: &mut [u8]) -> std::io::Result<usize> {
        let lim = if !b.is_empty() && self.i < self.plan.len() {
            let v = self.plan[self.i];
            self.i += 1;
            v
        } else {
            usize::MAX
        };
        let n = b.len().min(lim).min(self.d.len());
        b[..n].copy_from_slice(&self.d[..n]);
        self.d = &self.d[n..];
        self.log.push((b.len(), n));
        Ok(n)
    }
}

#[derive(Debug)]
pub struct RealRun {
    pub out: Out,
    pub table: Option<SymbolFile>,
    pub reads: bm::ReadLog,
    pub cb_lens: Vec<usize>,
    pub cb: Vec<u8>,
}
pub fn classify(res: Result<SymbolFile, SymbolError>, cb: usize) -> (Out, Option<SymbolFile>) {
    match res {
        Ok(t) => (Out::Ok { cb, dropped: 0 }, Some(t)),
        Err(SymbolError::ParseError(m, _)) if m.starts_with("empty SymbolFile") => (Out::ErrEmpty, None),
        Err(SymbolError::ParseError(m, _)) if m.starts_with("unexpected EOF") => (Out::ErrEof { cb }, None),
        Err(SymbolError::ParseError(..)) => (Out::ErrParse { cb }, None),
        Err(e) => panic!("c10: unexpected error kind from parse: {e:?}"),
    }
}
pub fn real_sync(data: &[u8], plan: &[usize]) -> RealRun {
    let mut r = PlanReader { d: data, plan, i: 0, log: vec![] };
    let mut cb = vec![];
    let mut cb_lens = vec![];
    let res = SymbolFile::parse(&mut r, |b| {
        cb_lens.push(b.len());
        cb.extend_from_slice(b)
    });
    let (out, table) = classify(res, cb.len());
    RealRun { out, table, reads: r.log, cb_lens, cb }
}

pub struct ScriptBody {
    pub chunks: VecDeque<bytes::Bytes>,
}
impl http_body::Body for ScriptBody {
    type Data = bytes::Bytes;
    type Error = std::io::Error;
    fn poll_frame(mut self: std::pin::Pin<&mut Self>, _cx: &mut std::task::Context<'_>) -> std::task::Poll<Option<Result<http_body::Frame<bytes::Bytes>, std::io::Error>>> {
        std::task::Poll::Ready(self.chunks.pop_front().map(|b| Ok(http_body::Frame::data(b))))
    }
}
pub fn block_on<F: std::future::Future>(f: F) -> F::Output {
    struct Noop;
    impl std::task::Wake for Noop {
        fn wake(self: Arc<Self>) {}
    }
    let w = std::task::Waker::from(Arc::new(Noop));
    let mut cx = std::task::Context::from_waker(&w);
    let mut f = std::pin::pin!(f);
    for _ in 0..1_000_000 {
        if let std::task::Poll::Ready(v) = f.as_mut().poll(&mut cx) {
            return v;
        }
    }
    panic!("c10: parse_async over a scripted body stays pending");
}
pub fn real_async(data: &[u8], chunks: &[usize]) -> RealRun {
    let mut q = VecDeque::new();
    let mut off = 0;
    for &c in chunks {
        q.push_back(bytes::Bytes::copy_from_slice(&data[off..off + c]));
        off += c;
    }
    assert_eq!(off, data.len(), "c10: chunk plan must cover the input");
    let resp = reqwest::Response::from(http::Response::new(reqwest::Body::wrap(ScriptBody { chunks: q })));
    let mut cb = vec![];
    let mut cb_lens = vec![];
    let res = block_on(SymbolFile::parse_async(resp, |b| {
        cb_lens.push(b.len());
        cb.extend_from_slice(b)
    }));
    let (out, table) = classify(res, cb.len());
    RealRun { out, table, reads: vec![], cb_lens, cb }
}

// ------------------------------------------------------------------------------------------
// inputs

#[derive(Clone, Debug)]
pub struct Inp {
    pub label: String,
    pub data: Vec<u8>,
    pub corrupt_at: Option<usize>,
    pub final_newline: bool,
    /// longest line incl. terminator; the property only speaks about lines < MAX/2
    pub max_line: usize,
}
impl Inp {
    pub fn class(&self) -> &'static str {
        if self.corrupt_at.is_some() {
            "corrupt-line"
        } else if self.final_newline {
            "final-newline"
        } else {
            "no-final-newline"
        }
    }
    pub fn model(&self) -> Input<'_> {
        Input { data: &self.data, corrupt_at: self.corrupt_at }
    }
    pub fn json(&self) -> Value {
        json!({"label": self.label, "bytes": self.data.len(), "class": self.class(), "longest_line": self.max_line,
               "text": String::from_utf8_lossy(&self.data[..self.data.len().min(160)])})
    }
}
/// a valid line of exactly `l` bytes including its terminator
pub fn info_line(l: usize) -> Vec<u8> {
    match l {
        1 => b"\n".to_vec(),
        2 => b"\r\n".to_vec(),
        _ => {
            assert!(l >= 7);
            // a line that leaves a trace in the table (a PUBLIC record at an address derived from the line's length),
            // so that a line which is silently dropped shows; lines too short for that are INFO lines
            let head = format!("PUBLIC {l:x} 0 ");
            let mut v = if l >= head.len() + 2 { head.into_bytes() } else { b"INFO ".to_vec() };
            v.resize(l - 1, b'x');
            v.push(b'\n');
            v
        }
    }
}
pub const LENS: &[usize] = &[1, 2, 7, 9, 15, 16, 17, 31, 32, 33, 63, 64, 65, 100, 126, 127];
pub fn family_a(max_lines: usize) -> Vec<Inp> {
    let mut v = vec![];
    for k in 1..=max_lines {
        let n = LENS.len().pow(k as u32);
        for mut i in 0..n {
            let mut ls = vec![];
            for _ in 0..k {
                ls.push(LENS[i % LENS.len()]);
                i /= LENS.len();
            }
            for nofinal in [false, true] {
                let mut d: Vec<u8> = ls.iter().flat_map(|&l| info_line(l)).collect();
                if nofinal {
                    d.pop();
                    if d.is_empty() || d.last() == Some(&b'\r') && ls.last() == Some(&2) {
                        // "\r" alone is not a line start we want to reason about; skip
                        continue;
                    }
                }
                v.push(Inp { label: format!("INFO lines {ls:?}{}", if nofinal { " (no final newline)" } else { "" }), data: d, corrupt_at: None, final_newline: !nofinal, max_line: *ls.iter().max().unwrap() });
            }
        }
    }
    v
}
pub const RECORDS: &[&str] = &[
    "MODULE Linux x86_64 ABCD1234ABCD1234ABCDABCD12345678a test",
    "INFO CODE_ID 1234",
    "INFO URL https://symbols.example.org/test/ABCD/test.sym",
    "FILE 0 a.c",
    "INLINE_ORIGIN 0 inl",
    "FUNC 1000 20 0 main",
    "INLINE 0 3 0 0 1004 4",
    "1000 4 10 0",
    "1004 c 11 0",
    "PUBLIC 2000 0 pub",
    "STACK CFI INIT 1000 20 .cfa: $rsp 8 + .ra: .cfa -8 + ^",
    "STACK CFI 1004 .cfa: $rsp 16 +",
    "STACK WIN 4 3000 10 0 0 0 0 0 0 1 $eip 4 + ^ =",
    "FUNC 3000 10 0 second",
    "3000 10 5 0",
];
/// An empty line ends a FUNC / STACK CFI group, so a sub-line after it is an orphan: these files fail to
/// parse — under every chunking alike. (`orphan` = index of the first orphan line.)
pub fn family_gappy() -> Vec<Inp> {
    let variants: [(&str, Vec<&str>, usize); 4] = [
        ("func", vec!["MODULE a b c d", "FUNC 10 8 0 f", "", "10 4 1 0", "PUBLIC 40 0 p"], 3),
        ("func-mid", vec!["MODULE a b c d", "FUNC 10 8 0 f", "10 4 1 0", "", "", "14 4 2 0", "PUBLIC 40 0 p"], 5),
        ("cfi", vec!["MODULE a b c d", "STACK CFI INIT 10 8 .cfa: $sp .ra: .cfa ^", "", "STACK CFI 14 .cfa: $sp 4 +", "PUBLIC 40 0 p"], 3),
        ("valid-gaps", vec!["MODULE a b c d", "", "FUNC 10 8 0 f", "10 4 1 0", "", "", "STACK CFI INIT 10 8 .cfa: $sp .ra: .cfa ^", "STACK CFI 14 .cfa: $sp 4 +", "", "PUBLIC 40 0 p", ""], usize::MAX),
    ];
    let mut v = vec![];
    for eol in ["\n", "\r\n"] {
        for (tag, lines, orphan) in &variants {
            let mut d = vec![];
            let mut at = None;
            for (j, l) in lines.iter().enumerate() {
                if j == *orphan {
                    at = Some(d.len());
                }
                d.extend_from_slice(l.as_bytes());
                d.extend_from_slice(eol.as_bytes());
            }
            let maxl = lines.iter().map(|r| r.len()).max().unwrap() + eol.len();
            v.push(Inp { label: format!("gappy {tag} {}", if eol == "\n" { "LF" } else { "CRLF" }), data: d, corrupt_at: at, final_newline: true, max_line: maxl });
        }
    }
    v
}
pub const SHORT_RECORDS: &[&str] = &["MODULE a b c d", "INFO x", "INFO URL u", "FUNC 10 8 0 f", "10 8 1 0", "STACK CFI INIT 10 8 .cfa: $sp .ra: .cfa ^", "STACK CFI 14 .cfa: $sp 4 +", "PUBLIC 40 0 p"];
pub fn family_b(records: &[&str], tag: &str) -> Vec<Inp> {
    let mut v = vec![];
    for eol in ["\n", "\r\n"] {
        let build_with = |corrupt: Option<usize>, bad: &[u8]| -> (Vec<u8>, Option<usize>) {
            let mut d = vec![];
            let mut at = None;
            for (j, r) in records.iter().enumerate() {
                if corrupt == Some(j) {
                    at = Some(d.len());
                    d.extend_from_slice(bad);
                } else {
                    d.extend_from_slice(r.as_bytes());
                }
                d.extend_from_slice(eol.as_bytes());
            }
            (d, at)
        };
        let build = |corrupt: Option<usize>| build_with(corrupt, b"BOGUS line here");
        let maxl = records.iter().map(|r| r.len()).max().unwrap() + eol.len();
        let e = if eol == "\n" { "LF" } else { "CRLF" };
        let (d, _) = build(None);
        v.push(Inp { label: format!("{tag} records {e}"), data: d.clone(), corrupt_at: None, final_newline: true, max_line: maxl });
        let mut nf = d.clone();
        nf.truncate(nf.len() - eol.len());
        v.push(Inp { label: format!("{tag} records {e}, no final newline"), data: nf, corrupt_at: None, final_newline: false, max_line: maxl });
        for j in 0..records.len() {
            let (d, at) = build(Some(j));
            v.push(Inp { label: format!("{tag} records {e}, line {j} corrupt"), data: d, corrupt_at: at, final_newline: true, max_line: maxl });
            // a second MODULE record anywhere but on the first line is an error too, wherever a chunk boundary falls
            if j >= 1 && records[0].starts_with("MODULE") {
                let (d, at) = build_with(Some(j), b"MODULE a b c d2");
                v.push(Inp { label: format!("{tag} records {e}, line {j} is a second MODULE record"), data: d, corrupt_at: at, final_newline: true, max_line: maxl });
            }
        }
    }
    v
}
pub fn family_tiny() -> Vec<Inp> {
    let texts: &[&[u8]] = &[b"", b"\n", b"INFO a\nINFO b\n", b"\n\n\n", b"INFO a\r\n\r\nINFO b\n", b"MODULE a b c d\n", b"INFO a\nINFO b", b"INFO abcdefghi\n", b"PUBLIC 1 0 f\n\n", b"BOGUS\nINFO a\n", b"INFO a\nBOGUS\n"];
    texts
        .iter()
        .map(|t| {
            let s = String::from_utf8_lossy(t).to_string();
            let corrupt_at = s.find("BOGUS");
            Inp { label: format!("tiny {s:?}"), data: t.to_vec(), corrupt_at, final_newline: t.last() == Some(&b'\n'), max_line: t.split(|&b| b == b'\n').map(|l| l.len() + 1).max().unwrap_or(1) }
        })
        .collect()
}

// ------------------------------------------------------------------------------------------
// per-input check

pub struct Budget {
    /// exhaustive one-deviation sizes for the first `dev_reads` reads (else a size menu)
    pub exhaustive_sizes: bool,
    pub dev_reads: usize,
    pub two_dev: bool,
    pub model_async: bool,
    pub compositions: bool,
    pub two_split: bool,
    /// run the all-schedules model search (false at real constants: the state space scales with the sizes)
    pub model_check: bool,
    /// fixed chunk sizes for the sync and async schedule families
    pub chunk_sizes: Vec<usize>,
    /// size menu for non-exhaustive one-deviation schedules
    pub dev_menu: Vec<usize>,
    /// every k-th single split point of the body (1 = all)
    pub split_stride: usize,
}
impl Budget {
    pub fn small_defaults() -> (Vec<usize>, Vec<usize>) {
        (vec![2, 3, 5, 7, 8, 15, 16, 17, 31, 32, 33, 64, 100, 127, 128, 129, 255, 256, 257], vec![1, 2, 7, 8, 15, 16, 17, 31, 33, 63])
    }
}

pub fn outcome_sig(inp: &Inp) -> String {
    format!("c10:outcome-depends-on-schedule:{}", inp.class())
}

/// compare a real run with the whole-buffer real run: the property itself, on real observations
pub fn check_property(c: Consts, inp: &Inp, reference: &RealRun, run: &RealRun, how: &str, plan: &[usize], l: &mut Local) {
    let detail = || json!({"input": inp.json(), "schedule_kind": how, "schedule": plan.iter().take(64).map(|&x| if x == usize::MAX { -1 } else { x as i64 }).collect::<Vec<_>>(),
        "whole_buffer_outcome": format!("{:?}", reference.out), "this_outcome": format!("{:?}", run.out)});
    if !inp.data.starts_with(&run.cb) {
        l.violation("c10:callback-bytes-not-a-prefix-of-input", format!("bytes handed to the callback are not a prefix of the input ({how})"), detail());
    }
    if matches!(run.out, Out::Ok { .. }) && run.cb != inp.data {
        l.violation("c10:callback-incomplete-on-success", format!("parse succeeded but the callback saw {} of {} bytes ({how})", run.cb.len(), inp.data.len()), detail());
    }
    if inp.max_line >= c.max / 2 {
        return; // the property only quantifies over inputs whose lines are shorter than MAX/2
    }
    if run.out.class() != reference.out.class() {
        l.violation(outcome_sig(inp), format!("outcome depends on chunking for a {} input: whole buffer -> {}, {how} -> {}", inp.class(), reference.out.class(), run.out.class()), detail());
    } else if let (Some(a), Some(b)) = (&reference.table, &run.table) {
        if a != b {
            l.violation("c10:symbol-table-differs", format!("both parses succeed but the symbol tables differ ({how})"), detail());
        }
    }
}

/// model run == real run, observation by observation; returns false on divergence
pub fn conforms(inp: &Inp, how: &str, plan: &[usize], m: &(Out, bm::ReadLog, Vec<usize>), r: &RealRun, l: &mut Local) -> bool {
    let m_out = match &m.0 {
        Out::Ok { cb, .. } => Out::Ok { cb: *cb, dropped: 0 },
        o => o.clone(),
    };
    let same = m_out == r.out && (r.reads.is_empty() || m.1 == r.reads) && m.2 == r.cb_lens;
    if !same {
        l.count("model_code_divergences", 1);
        if l.counters.get("model_code_divergences").copied().unwrap_or(0) <= 3 {
            eprintln!(
                "[C10] MODEL/CODE DIVERGENCE on {} ({how} {:?}):\n  model: {:?} reads {:?} callbacks {:?}\n  code : {:?} reads {:?} callbacks {:?}",
                inp.label,
                &plan[..plan.len().min(12)],
                m.0,
                &m.1[..m.1.len().min(16)],
                &m.2[..m.2.len().min(16)],
                r.out,
                &r.reads[..r.reads.len().min(16)],
                &r.cb_lens[..r.cb_lens.len().min(16)]
            );
        }
    } else {
        l.count("traces_validated", 1);
    }
    same
}

pub fn check_input(c: Consts, inp: &Inp, b: &Budget, l: &mut Local) {
    let mi = inp.model();
    let reference = real_sync(&inp.data, &[]);
    l.eval();
    // from_bytes is the whole-buffer parse by definition; make sure the scripted reader agrees with it
    let fb = SymbolFile::from_bytes(&inp.data);
    match (&fb, &reference.table) {
        (Ok(a), Some(t)) if a == t => {}
        (Err(_), None) => {}
        _ => l.violation("c10:from_bytes-vs-whole-buffer-reader", "SymbolFile::from_bytes and parse() over a reader that returns everything at once disagree", json!({"input": inp.json()})),
    }
    l.outcome(&format!("whole-buffer {} [{}]", reference.out.class(), inp.class()));

    // ---- model check: all schedules of the sync loop
    let mut st = bm::SearchStats::default();
    let outs = if b.model_check { bm::all_outcomes_sync(c, &mi, &mut st) } else { vec![] };
    l.count("states", st.states);
    l.count("transitions", st.transitions);
    l.distinct(&(hash_of(&inp.data), "sync", outs.len()));
    let model_ref = bm::run_sync(c, &mi, &[]);
    for (o, witness) in &outs {
        // every distinct terminal outcome of the model is replayed on the real parser
        let r = real_sync(&inp.data, witness);
        let m = bm::run_sync(c, &mi, witness);
        l.eval();
        assert_eq!(&m.0, o, "bufmodel: witness schedule does not reproduce its outcome");
        conforms(inp, "model-witness", witness, &m, &r, l);
        check_property(c, inp, &reference, &r, "sync witness of a model outcome", witness, l);
        if o.class() != model_ref.0.class() {
            l.outcome(&format!("model: schedule-dependent outcome [{}]", inp.class()));
        }
    }
    if b.model_check && b.model_async && inp.data.len() <= 80 {
        let mut st = bm::SearchStats::default();
        let outs = bm::all_outcomes_async(c, &mi, &mut st);
        l.count("states", st.states);
        l.count("transitions", st.transitions);
        l.distinct(&(hash_of(&inp.data), "async", outs.len()));
        for (o, witness) in &outs {
            // a terminal reached before the whole body was chunked: the rest arrives as one more chunk
            let mut witness = witness.clone();
            let assigned: usize = witness.iter().sum();
            if assigned < inp.data.len() {
                witness.push(inp.data.len() - assigned);
            }
            let witness = &witness;
            let r = real_async(&inp.data, witness);
            let m = bm::run_async(c, &mi, witness);
            l.eval();
            assert_eq!(&m.0, o, "bufmodel: async witness does not reproduce its outcome");
            conforms(inp, "model-witness-async", witness, &m, &r, l);
            check_property(c, inp, &reference, &r, "async witness of a model outcome", witness, l);
        }
    }

    // ---- conformance + property on explicit schedule families (real code, sync)
    let n = inp.data.len();
    let mut plans: Vec<Vec<usize>> = vec![vec![]];
    if n <= 4096 {
        plans.push(vec![1; n + 8]);
    }
    for &cs in &b.chunk_sizes {
        plans.push(vec![cs; n / cs + 8]);
    }
    // one deviation: read i (among reads that were offered space) shortened to s
    let offered: Vec<usize> = model_ref.1.iter().filter(|(space, _)| *space > 0).map(|(_, n)| *n).collect();
    let menu = &b.dev_menu;
    let mut dev_plans: Vec<Vec<usize>> = vec![];
    for (i, &took) in offered.iter().enumerate().take(b.dev_reads) {
        let sizes: Vec<usize> = if b.exhaustive_sizes { (1..took).collect() } else { menu.iter().copied().filter(|s| *s < took).collect() };
        for s in sizes {
            let mut p = vec![usize::MAX; i];
            p.push(s);
            dev_plans.push(p);
        }
    }
    if b.two_dev {
        let base = dev_plans.clone();
        for p in base.iter().filter(|p| p.len() <= 4) {
            for j in 0..3 {
                for s in menu.iter().copied().take(4) {
                    let mut q = p.clone();
                    q.extend(std::iter::repeat(usize::MAX).take(j));
                    q.push(s);
                    dev_plans.push(q);
                }
            }
        }
    }
    plans.extend(dev_plans);
    for p in &plans {
        let r = real_sync(&inp.data, p);
        let m = bm::run_sync(c, &mi, p);
        l.eval();
        conforms(inp, "sync", p, &m, &r, l);
        check_property(c, inp, &reference, &r, "sync reader schedule", p, l);
    }

    // ---- async loop (parse_async over a scripted body)
    let mut cplans: Vec<Vec<usize>> = vec![];
    if n > 0 {
        cplans.push(vec![n]);
        if n <= 4096 {
            cplans.push(vec![1; n]);
        }
        for &cs in &b.chunk_sizes {
            if cs < n {
                let mut p = vec![cs; n / cs];
                if n % cs > 0 {
                    p.push(n % cs);
                }
                cplans.push(p);
            }
        }
        let mut k = 1;
        while k < n {
            cplans.push(vec![k, n - k]);
            k += b.split_stride.max(1);
        }
        if b.two_split {
            for k in 1..n {
                for j in (k + 1)..n {
                    cplans.push(vec![k, j - k, n - j]);
                }
            }
        }
    }
    for p in &cplans {
        let r = real_async(&inp.data, p);
        let m = bm::run_async(c, &mi, p);
        l.eval();
        conforms(inp, "async", p, &m, &r, l);
        check_property(c, inp, &reference, &r, "async body chunking", p, l);
        // the same body with one EMPTY frame somewhere in it (a body may deliver empty frames; they carry no
        // bytes and are not the end of the body): the outcome must be that of the whole buffer too
        if p.len() <= 3 {
            for at in 0..=p.len() {
                let mut q = p.clone();
                q.insert(at, 0);
                let r = real_async(&inp.data, &q);
                l.eval();
                check_property(c, inp, &reference, &r, "async body chunking with an empty frame", &q, l);
            }
        }
    }

    // ---- every composition of tiny inputs (all 2^(n-1) chunkings), sync and async, on the real code
    if b.compositions && n <= 16 && n > 0 {
        for mask in 0u32..(1 << (n - 1)) {
            let mut p = vec![];
            let mut cur = 1;
            for bit in 0..(n - 1) {
                if mask & (1 << bit) != 0 {
                    p.push(cur);
                    cur = 1;
                } else {
                    cur += 1;
                }
            }
            p.push(cur);
            let r = real_async(&inp.data, &p);
            let m = bm::run_async(c, &mi, &p);
            conforms(inp, "async-composition", &p, &m, &r, l);
            check_property(c, inp, &reference, &r, "async composition", &p, l);
            let r = real_sync(&inp.data, &p);
            let m = bm::run_sync(c, &mi, &p);
            conforms(inp, "sync-composition", &p, &m, &r, l);
            check_property(c, inp, &reference, &r, "sync composition", &p, l);
            l.evals(2);
        }
    }
}

