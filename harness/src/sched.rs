//! E2 — controlled poll scheduler for real futures (C12, C13).
//!
//! A hand-rolled single-threaded executor that owns every scheduling decision: which woken
//! task to poll, when each suspended "IO" completes (which wakes its task), and — up to a
//! budget — spurious polls of tasks nobody woke (what `join_all` does). Exploration is a
//! stateless depth-first search over choice sequences; every execution is a replay from a
//! fresh system built by the caller's factory. "Unfinished tasks but nothing enabled" is a
//! deadlock / lost wake-up. Replaying a prefix that does not fit is a hard (machinery) error.
use std::future::Future;
use std::pin::Pin;
use std::sync::atomic::{AtomicBool, Ordering::SeqCst};
use std::sync::{Arc, Mutex};
use std::task::{Context, Poll, Wake, Waker};

/// The explorer-owned table of pending IO completions.
#[derive(Default)]
pub struct IoTable {
    pub slots: Vec<IoSlot>,
}
pub struct IoSlot {
    pub waker: Option<Waker>,
    pub done: bool,
    pub label: String,
}
pub type Io = Arc<Mutex<IoTable>>;

/// A future that suspends until the explorer completes IO slot `id`.
pub struct IoFut {
    io: Io,
    id: usize,
}
impl Future for IoFut {
    type Output = ();
    fn poll(self: Pin<&mut Self>, cx: &mut Context<'_>) -> Poll<()> {
        let mut t = self.io.lock().unwrap();
        if t.slots[self.id].done {
            Poll::Ready(())
        } else {
            t.slots[self.id].waker = Some(cx.waker().clone());
            Poll::Pending
        }
    }
}
/// Create one suspension point (a pending IO the explorer decides when to complete).
pub fn suspend(io: &Io, label: &str) -> IoFut {
    let mut t = io.lock().unwrap();
    t.slots.push(IoSlot { waker: None, done: false, label: label.to_string() });
    IoFut { io: io.clone(), id: t.slots.len() - 1 }
}

struct Flag(AtomicBool);
impl Wake for Flag {
    fn wake(self: Arc<Self>) {
        self.0.store(true, SeqCst)
    }
    fn wake_by_ref(self: &Arc<Self>) {
        self.0.store(true, SeqCst)
    }
}

pub type Task = Pin<Box<dyn Future<Output = ()>>>;

/// A system under exploration: tasks + the IO table they suspend on + a fingerprint function
/// (used only to count distinct states and to assert replay determinism — never for pruning).
pub struct System {
    pub tasks: Vec<Task>,
    pub io: Io,
    pub fingerprint: Box<dyn Fn() -> u64>,
}

#[derive(Clone, Copy, Debug, PartialEq, Eq)]
pub enum Action {
    Poll(usize),
    Io(usize),
    Spurious(usize),
}

#[derive(Default, Debug, Clone)]
pub struct Execution {
    pub choices: Vec<usize>,
    pub nenabled: Vec<usize>,
    pub actions: Vec<Action>,
    pub fingerprints: Vec<u64>,
    pub deadlock: bool,
    /// number of non-default (non-zero) choices taken
    pub deviations: usize,
}

/// Run one execution: replay `prefix`, then always take choice 0 (canonical order: woken
/// tasks ascending, then pending IOs oldest first, then spurious polls ascending).
/// `on_step` is called after every step (for step invariants). Returns the execution; the
/// caller inspects its own shared observation state afterwards.
pub fn run(sys: System, prefix: &[usize], spurious_budget: usize, max_steps: usize, mut on_step: impl FnMut(&Execution)) -> Execution {
    let System { tasks, io, fingerprint } = sys;
    let mut futs: Vec<Option<Task>> = tasks.into_iter().map(Some).collect();
    let flags: Vec<Arc<Flag>> = (0..futs.len()).map(|_| Arc::new(Flag(AtomicBool::new(true)))).collect();
    let wakers: Vec<Waker> = flags.iter().map(|f| Waker::from(f.clone())).collect();
    let mut ex = Execution::default();
    let mut spurious_used = 0;
    loop {
        if futs.iter().all(|f| f.is_none()) {
            break;
        }
        let mut en: Vec<Action> = vec![];
        for t in 0..futs.len() {
            if futs[t].is_some() && flags[t].0.load(SeqCst) {
                en.push(Action::Poll(t));
            }
        }
        {
            let tb = io.lock().unwrap();
            for (i, s) in tb.slots.iter().enumerate() {
                if !s.done {
                    en.push(Action::Io(i));
                }
            }
        }
        if en.is_empty() {
            ex.deadlock = true;
            break;
        }
        if spurious_used < spurious_budget {
            for t in 0..futs.len() {
                if futs[t].is_some() && !flags[t].0.load(SeqCst) {
                    en.push(Action::Spurious(t));
                }
            }
        }
        let step = ex.choices.len();
        assert!(step < max_steps, "sched: execution exceeded the step horizon ({max_steps})");
        let c = if step < prefix.len() {
            assert!(prefix[step] < en.len(), "sched: replay divergence at step {step}: choice {} of {} enabled", prefix[step], en.len());
            prefix[step]
        } else {
            0
        };
        if c != 0 {
            ex.deviations += 1;
        }
        ex.choices.push(c);
        ex.nenabled.push(en.len());
        ex.actions.push(en[c]);
        match en[c] {
            Action::Poll(t) | Action::Spurious(t) => {
                if let Action::Spurious(_) = en[c] {
                    spurious_used += 1;
                }
                flags[t].0.store(false, SeqCst);
                let mut cx = Context::from_waker(&wakers[t]);
                if futs[t].as_mut().unwrap().as_mut().poll(&mut cx).is_ready() {
                    futs[t] = None;
                }
            }
            Action::Io(i) => {
                let w = {
                    let mut tb = io.lock().unwrap();
                    tb.slots[i].done = true;
                    tb.slots[i].waker.take()
                };
                if let Some(w) = w {
                    w.wake();
                }
            }
        }
        ex.fingerprints.push(fingerprint());
        on_step(&ex);
    }
    // drop unfinished futures before the caller looks at shared state
    drop(futs);
    ex
}

#[derive(Default, Debug, Clone)]
pub struct ExploreStats {
    pub schedules: u64,
    pub steps: u64,
    pub max_len: usize,
    pub max_deviations: usize,
    pub deadlocks: u64,
    pub stopped_early: bool,
}

/// Stateless DFS over all schedules extending `prefix`. `bound` = maximum number of
/// deviations (non-default choices) per execution, `None` = unbounded (complete).
/// `exec(prefix) -> (Execution, keep_going)`: runs one execution on a fresh system and checks it.
pub fn explore(prefix: Vec<usize>, bound: Option<usize>, stats: &mut ExploreStats, exec: &mut dyn FnMut(&[usize]) -> (Execution, bool)) {
    // explicit stack instead of recursion: schedules trees can be deep
    let mut stack: Vec<Vec<usize>> = vec![prefix];
    while let Some(p) = stack.pop() {
        let (x, go) = exec(&p);
        stats.schedules += 1;
        stats.steps += x.choices.len() as u64;
        stats.max_len = stats.max_len.max(x.choices.len());
        stats.max_deviations = stats.max_deviations.max(x.deviations);
        if x.deadlock {
            stats.deadlocks += 1;
        }
        if !go {
            stats.stopped_early = true;
            return;
        }
        let mut dev_before: usize = x.choices[..p.len().min(x.choices.len())].iter().filter(|&&c| c != 0).count();
        // children in reverse so that the DFS order is lexicographic
        let mut kids = vec![];
        for i in p.len()..x.choices.len() {
            // choices after the prefix are all 0 by construction
            if bound.map(|b| dev_before + 1 <= b).unwrap_or(true) {
                for alt in 1..x.nenabled[i] {
                    let mut q = x.choices[..i].to_vec();
                    q.push(alt);
                    kids.push(q);
                }
            }
            if x.choices[i] != 0 {
                dev_before += 1;
            }
        }
        while let Some(k) = kids.pop() {
            stack.push(k);
        }
    }
}
