//! Reference interpreter for Breakpad `STACK CFI` records (property C06).
//!
//! Written from the module documentation at the top of
//! `breakpad-symbols/src/sym_file/walker.rs` ("# STACK CFI", "## STACK CFI registers",
//! "## STACK CFI expressions") and from the statement of property C06 — not from the
//! evaluator below that documentation. Where the documentation leaves a point open the
//! reference answers `Open` (nothing is compared) instead of guessing:
//!
//! * `/` and `%` with an operand >= 2^63: the documentation does not say whether the
//!   operands are signed. The result is an *unspecified value* that taints what is computed
//!   from it; a definite failure later in the same expression (`.undef`, stack underflow,
//!   zero divisor, non-power-of-two alignment) is still a definite failure.
//! * syntactically malformed rule lines (empty EXPR, first token not a `REG:`): `Malformed`.
//!
//! Documented semantics encoded here:
//! * a record applies to `[init.address, init.address + size)`; addresses are module relative;
//! * final rules = INIT rules, then every delta record of that INIT whose address is
//!   `<=` the lookup address, applied in address order; a later `REG:` overrides an earlier one
//!   (also inside one line); `$reg` and `reg` name the same register;
//! * `.cfa` and `.ra` must have rules; `.cfa` is evaluated first and cannot use `.cfa`; if
//!   either fails the whole unwind fails;
//! * every other register is set from its rule, or marked unknown when its rule fails;
//! * expressions are postfix over a stack of 64-bit values, wrapping arithmetic, the right-hand
//!   side is popped first; exactly one value must remain; `.undef`, stack underflow, zero
//!   divisor, an alignment that is not a power of two, unreadable memory, unknown registers
//!   and unknown tokens (which includes `.ra` in EXPR position and literals outside i64) make
//!   the rule fail.
use std::collections::BTreeMap;

/// What the reference needs to know about the callee frame and the walker.
pub trait CfiEnv {
    /// value of a callee register by bare name (no `$`), `None` if unknown or not valid
    fn callee_reg(&self, name: &str) -> Option<u64>;
    /// register-sized word of stack memory
    fn mem(&self, addr: u64) -> Option<u64>;
}

#[derive(Clone, Copy, Debug, PartialEq, Eq, Hash)]
pub enum Val {
    Ok(u64),
    /// the rule fails (documented)
    Fail,
    /// the documentation does not determine the outcome
    Open,
}

/// `-?[0-9]+` within i64, per "a signed decimal integer (limited to i64 precision)".
pub fn literal(tok: &str) -> Option<u64> {
    let (neg, digits) = match tok.strip_prefix('-') {
        Some(d) => (true, d),
        None => (false, tok),
    };
    if digits.is_empty() || !digits.bytes().all(|b| b.is_ascii_digit()) || digits.len() > 30 {
        return None;
    }
    let mut v: i128 = 0;
    for b in digits.bytes() {
        v = v * 10 + (b - b'0') as i128;
    }
    if neg {
        v = -v;
    }
    if v < i64::MIN as i128 || v > i64::MAX as i128 {
        return None;
    }
    Some(v as i64 as u64)
}

const TOP: u64 = 1 << 63;

/// Evaluate one postfix expression. `cfa` is `None` while the CFA rule itself is evaluated.
pub fn eval_expr(tokens: &[&str], env: &dyn CfiEnv, cfa: Option<u64>) -> Val {
    // None on the stack = an unspecified value (signedness of / and %)
    let mut st: Vec<Option<u64>> = Vec::new();
    for &t in tokens {
        match t {
            "+" | "-" | "*" | "/" | "%" | "@" => {
                let Some(r) = st.pop() else { return Val::Fail };
                let Some(l) = st.pop() else { return Val::Fail };
                let v = match t {
                    "+" => l.zip(r).map(|(l, r)| l.wrapping_add(r)),
                    "-" => l.zip(r).map(|(l, r)| l.wrapping_sub(r)),
                    "*" => l.zip(r).map(|(l, r)| l.wrapping_mul(r)),
                    "/" | "%" => match r {
                        Some(0) => return Val::Fail,
                        None => return Val::Open, // may or may not be zero
                        Some(r) => match l {
                            Some(l) if l < TOP && r < TOP => Some(if t == "/" { l / r } else { l % r }),
                            _ => None,
                        },
                    },
                    _ => match r {
                        // "@": truncate lhs to a multiple of rhs; rhs must be a power of two
                        None => return Val::Open,
                        Some(r) => {
                            if r.count_ones() != 1 {
                                return Val::Fail;
                            }
                            l.map(|l| l - (l % r))
                        }
                    },
                };
                st.push(v);
            }
            "^" => {
                let Some(p) = st.pop() else { return Val::Fail };
                let Some(p) = p else { return Val::Open };
                match env.mem(p) {
                    Some(v) => st.push(Some(v)),
                    None => return Val::Fail,
                }
            }
            ".cfa" => match cfa {
                Some(c) => st.push(Some(c)),
                None => return Val::Fail,
            },
            ".undef" => return Val::Fail,
            _ => {
                if let Some(v) = literal(t) {
                    st.push(Some(v));
                } else {
                    let name = t.strip_prefix('$').unwrap_or(t);
                    match env.callee_reg(name) {
                        Some(v) => st.push(Some(v)),
                        None => return Val::Fail,
                    }
                }
            }
        }
    }
    if st.len() != 1 {
        return Val::Fail;
    }
    match st[0] {
        Some(v) => Val::Ok(v),
        None => Val::Open,
    }
}

#[derive(Clone, Debug)]
pub struct CfiRecord {
    pub address: u64,
    pub size: u64,
    pub init_rules: String,
    /// delta records in FILE order (the reference orders them by address itself)
    pub deltas: Vec<(u64, String)>,
}

#[derive(Clone, Copy, Debug, PartialEq, Eq, Hash, PartialOrd, Ord)]
pub enum RegOut {
    Set(u64),
    /// rule failed: the register is unknown in the caller
    Cleared,
    /// outcome of this register's rule is not determined by the documentation
    Open,
}

#[derive(Clone, Debug, PartialEq, Eq, Hash)]
pub enum CfiExpect {
    /// no record covers the address, or `.cfa` / `.ra` missing or failing: unwinding fails
    Fail(&'static str),
    /// a rule line in effect is syntactically malformed: only "no panic; if it succeeds, cfa
    /// and ra were set" is required
    Malformed,
    /// outcome of the cfa or ra rule not determined by the documentation
    Open,
    Some { cfa: u64, ra: u64, regs: BTreeMap<String, RegOut> },
}

/// Split one rules line into (register, expression tokens); `None` = malformed.
pub fn parse_rules(line: &str) -> Option<Vec<(String, Vec<&str>)>> {
    let mut out: Vec<(String, Vec<&str>)> = Vec::new();
    for t in line.split_ascii_whitespace() {
        if let Some(r) = t.strip_suffix(':') {
            if let Some(last) = out.last() {
                if last.1.is_empty() {
                    return None;
                }
            }
            let name = if r == ".cfa" || r == ".ra" { r.to_string() } else { r.strip_prefix('$').unwrap_or(r).to_string() };
            out.push((name, Vec::new()));
        } else {
            out.last_mut()?.1.push(t);
        }
    }
    match out.last() {
        None => None,
        Some(l) if l.1.is_empty() => None,
        _ => Some(out),
    }
}

/// The rule lines in effect at `rel` (module-relative), INIT first, deltas in address order.
/// `Err(())` when the delta order is not defined (two applicable deltas share an address and a register).
pub fn lines_in_effect(rec: &CfiRecord, rel: u64) -> Result<Vec<&str>, ()> {
    let mut ds: Vec<(u64, &str)> = rec.deltas.iter().filter(|d| d.0 <= rel).map(|d| (d.0, d.1.as_str())).collect();
    ds.sort_by_key(|d| d.0); // stable; ties are rejected below
    // Which of two same-address lines wins for one register is not documented; when they assign disjoint
    // registers the order cannot matter and both are in effect.
    let labels = |r: &str| -> Vec<String> { r.split_whitespace().filter(|t| t.ends_with(':')).map(|t| t.trim_start_matches('$').to_string()).collect() };
    for i in 0..ds.len() {
        for j in 0..i {
            if ds[i].0 == ds[j].0 {
                let (a, b) = (labels(ds[i].1), labels(ds[j].1));
                if a.is_empty() || b.is_empty() || a.iter().any(|x| b.contains(x)) {
                    return Err(());
                }
            }
        }
    }
    let mut v = vec![rec.init_rules.as_str()];
    v.extend(ds.iter().map(|d| d.1));
    Ok(v)
}

/// Full unwind step for a module-relative lookup address.
pub fn unwind(records: &[CfiRecord], rel: u64, env: &dyn CfiEnv) -> CfiExpect {
    let mut hit = records.iter().filter(|r| r.size > 0 && rel >= r.address && rel - r.address < r.size);
    let Some(rec) = hit.next() else { return CfiExpect::Fail("no-record") };
    assert!(hit.next().is_none(), "reference: overlapping INIT records are outside the modelled space");
    let Ok(lines) = lines_in_effect(rec, rel) else { return CfiExpect::Open };
    let mut rules: BTreeMap<String, Vec<&str>> = BTreeMap::new();
    let mut parsed = vec![];
    for l in &lines {
        match parse_rules(l) {
            Some(p) => parsed.push(p),
            None => return CfiExpect::Malformed,
        }
    }
    for p in parsed {
        for (r, e) in p {
            rules.insert(r, e);
        }
    }
    let Some(cfa_rule) = rules.remove(".cfa") else { return CfiExpect::Fail("no-cfa-rule") };
    let Some(ra_rule) = rules.remove(".ra") else { return CfiExpect::Fail("no-ra-rule") };
    let cfa = match eval_expr(&cfa_rule, env, None) {
        Val::Ok(v) => v,
        Val::Fail => return CfiExpect::Fail("cfa-rule-fails"),
        Val::Open => return CfiExpect::Open,
    };
    let ra = match eval_expr(&ra_rule, env, Some(cfa)) {
        Val::Ok(v) => v,
        Val::Fail => return CfiExpect::Fail("ra-rule-fails"),
        Val::Open => return CfiExpect::Open,
    };
    let mut regs = BTreeMap::new();
    for (r, e) in rules {
        let o = match eval_expr(&e, env, Some(cfa)) {
            Val::Ok(v) => RegOut::Set(v),
            Val::Fail => RegOut::Cleared,
            Val::Open => RegOut::Open,
        };
        regs.insert(r, o);
    }
    CfiExpect::Some { cfa, ra, regs }
}

// ---------------------------------------------------------------------------------------------
// tiny executor for the real `walk_stack` (all futures involved are ready at first poll unless
// they yield; a no-op waker and a poll loop are enough)

pub fn block_on<F: std::future::Future>(f: F) -> F::Output {
    use std::sync::Arc;
    use std::task::{Context, Poll, Wake, Waker};
    struct Noop;
    impl Wake for Noop {
        fn wake(self: Arc<Self>) {}
    }
    let waker = Waker::from(Arc::new(Noop));
    let mut cx = Context::from_waker(&waker);
    let mut f = std::pin::pin!(f);
    let mut spins = 0u64;
    loop {
        if let Poll::Ready(v) = f.as_mut().poll(&mut cx) {
            return v;
        }
        spins += 1;
        assert!(spins < 10_000_000, "block_on: future never completes");
    }
}

// ---------------------------------------------------------------------------------------------
// generator: all WELL-FORMED postfix token sequences of an exact length (the stack never
// underflows and ends at a target depth), densely indexed by counting (no storage).

pub mod wf {
    #[derive(Clone)]
    pub struct Class {
        pub tokens: Vec<&'static str>,
        /// operands the token pops
        pub need: u32,
        /// net change of the stack depth
        pub delta: i32,
    }
    #[derive(Clone)]
    pub struct WellFormed {
        classes: Vec<Class>,
        len: usize,
        /// n[r][d]: number of sequences of r tokens that lead from depth d to the target depth
        n: Vec<Vec<u64>>,
    }
    impl WellFormed {
        pub fn new(classes: Vec<Class>, len: usize, target: u32) -> WellFormed {
            let maxd = len + 2;
            let mut n = vec![vec![0u64; maxd + 1]; len + 1];
            n[0][target as usize] = 1;
            for r in 1..=len {
                for d in 0..maxd {
                    let mut s = 0u64;
                    for c in &classes {
                        let nd = d as i64 + c.delta as i64;
                        if d as u32 >= c.need && nd >= 0 && (nd as usize) <= maxd {
                            s = s.checked_add((c.tokens.len() as u64).checked_mul(n[r - 1][nd as usize]).expect("wf: count overflow")).expect("wf: count overflow");
                        }
                    }
                    n[r][d] = s;
                }
            }
            WellFormed { classes, len, n }
        }
        pub fn count(&self) -> u64 {
            self.n[self.len][0]
        }
        pub fn unrank(&self, mut idx: u64) -> Vec<&'static str> {
            assert!(idx < self.count(), "wf: index out of range");
            let mut out = Vec::with_capacity(self.len);
            let mut d = 0usize;
            'pos: for pos in 0..self.len {
                let r = self.len - pos;
                for c in &self.classes {
                    let nd = d as i64 + c.delta as i64;
                    if (d as u32) < c.need || nd < 0 {
                        continue;
                    }
                    let per = self.n[r - 1][nd as usize];
                    let block = c.tokens.len() as u64 * per;
                    if idx < block {
                        out.push(c.tokens[(idx / per) as usize]);
                        idx %= per;
                        d = nd as usize;
                        continue 'pos;
                    }
                    idx -= block;
                }
                unreachable!("wf: unrank fell through");
            }
            out
        }
    }
}
