//! "Do everything a consumer can do" with a byte string offered as a minidump (C01; reused by
//! C03/C20). Every operation group is announced to an [`Observer`] before it starts (so that a
//! monitor can attribute a hang / allocation to it) and runs under its own panic guard, so one
//! panicking operation does not hide the ones after it.
//!
//! Order follows `print_minidump_dump` of minidump-stackwalk (`--dump`), extended with every
//! query the library offers on the parsed values.
use crate::core::{guard, PanicInfo};
use minidump::system_info::{Cpu, Os};
use minidump::*;

pub trait Observer {
    /// An operation group is about to start.
    fn op(&mut self, label: &'static str);
    /// The operation group `label` panicked.
    fn panic(&mut self, label: &'static str, p: &PanicInfo);
}

/// Every operation label `exercise` can announce, in a fixed order (index = op code).
pub const OPS: &[&str] = &[
    "(not started)",
    "Minidump::read",
    "Minidump::print",
    "get_stream<MinidumpSystemInfo>",
    "get_stream<MinidumpMiscInfo>",
    "get_stream<MinidumpMemoryList>",
    "get_stream<MinidumpMemory64List>",
    "Minidump::get_memory",
    "get_stream<MinidumpThreadList>",
    "MinidumpThreadList::print",
    "MinidumpThread::context",
    "MinidumpContext::print",
    "MinidumpContext registers",
    "MinidumpThread::stack_memory",
    "MinidumpThread::last_error",
    "MinidumpThread::print",
    "get_stream<MinidumpModuleList>",
    "MinidumpModuleList::print",
    "MinidumpModuleList queries",
    "get_stream<MinidumpUnloadedModuleList>",
    "MinidumpUnloadedModuleList::print",
    "MinidumpUnloadedModuleList queries",
    "get_stream<MinidumpHandleDataStream>",
    "MinidumpHandleDataStream::print",
    "UnifiedMemoryList::print",
    "MinidumpMemoryList::print",
    "MinidumpMemory64List::print",
    "memory queries",
    "get_stream<MinidumpMemoryInfoList>",
    "MinidumpMemoryInfoList::print",
    "MinidumpMemoryInfoList queries",
    "get_stream<MinidumpLinuxMaps>",
    "MinidumpLinuxMaps::print",
    "MinidumpLinuxMaps queries",
    "UnifiedMemoryInfoList",
    "get_stream<MinidumpException>",
    "MinidumpException queries",
    "MinidumpException::context",
    "MinidumpException::print",
    "get_stream<MinidumpAssertion>",
    "MinidumpAssertion::print",
    "MinidumpSystemInfo::print",
    "MinidumpSystemInfo queries",
    "MinidumpMiscInfo::print",
    "get_stream<MinidumpThreadNames>",
    "MinidumpThreadNames::print",
    "get_stream<MinidumpThreadInfoList>",
    "MinidumpThreadInfoList::print",
    "get_stream<MinidumpBreakpadInfo>",
    "MinidumpBreakpadInfo::print",
    "get_stream<MinidumpCrashpadInfo>",
    "MinidumpCrashpadInfo::print",
    "get_stream<MinidumpMacCrashInfo>",
    "MinidumpMacCrashInfo::print",
    "get_stream<MinidumpMacBootargs>",
    "MinidumpMacBootargs::print",
    "get_stream<MinidumpLinuxCpuInfo>",
    "get_stream<MinidumpLinuxEnviron>",
    "get_stream<MinidumpLinuxLsbRelease>",
    "get_stream<MinidumpLinuxProcStatus>",
    "get_stream<MinidumpLinuxProcLimits>",
    "get_stream<MinidumpSoftErrors>",
    "text stream iterators",
    "raw streams",
    "(finished)",
];
pub fn op_code(label: &str) -> u8 {
    OPS.iter().position(|o| *o == label).unwrap_or_else(|| panic!("exercise: label {label:?} is not in OPS")) as u8
}

/// What happened, for the non-triviality rule of C01: whether the dump opened, and for every
/// stream type "Ok" or the error name.
#[derive(Default, Clone, Debug, Hash, PartialEq, Eq)]
pub struct Summary {
    pub read: &'static str,
    pub streams: Vec<(&'static str, &'static str)>,
    pub threads: usize,
    pub modules: usize,
    pub contexts_ok: usize,
    pub panics: usize,
}

const ALL_OS: [Os; 9] = [Os::Windows, Os::MacOs, Os::Ios, Os::Linux, Os::Solaris, Os::Android, Os::Ps3, Os::NaCl, Os::Unknown(0)];
const ALL_CPU: [Cpu; 10] = [Cpu::X86, Cpu::X86_64, Cpu::Ppc, Cpu::Ppc64, Cpu::Sparc, Cpu::Arm, Cpu::Arm64, Cpu::Mips, Cpu::Mips64, Cpu::Unknown(0)];

/// addresses around a range [b, b+size): both ends, one inside, one outside on each side
fn around(b: u64, size: u64) -> [u64; 6] {
    [b.wrapping_sub(1), b, b.wrapping_add(1), b.wrapping_add(size).wrapping_sub(1), b.wrapping_add(size), b.wrapping_add(size).wrapping_add(1)]
}

struct Run<'o> {
    obs: &'o mut dyn Observer,
    sum: Summary,
}
impl Run<'_> {
    fn op<T>(&mut self, label: &'static str, f: impl FnOnce() -> T) -> Option<T> {
        self.obs.op(label);
        match guard(f) {
            Ok(v) => Some(v),
            Err(p) => {
                self.sum.panics += 1;
                self.obs.panic(label, &p);
                None
            }
        }
    }
    fn stream<T>(&mut self, label: &'static str, f: impl FnOnce() -> Result<T, Error>) -> Option<T> {
        match self.op(label, f) {
            Some(Ok(v)) => {
                self.sum.streams.push((label, "Ok"));
                Some(v)
            }
            Some(Err(e)) => {
                self.sum.streams.push((label, e.name()));
                None
            }
            None => {
                self.sum.streams.push((label, "panic"));
                None
            }
        }
    }
}

/// Open `bytes` as a minidump, request every stream, query and print everything.
pub fn exercise(bytes: &[u8], obs: &mut dyn Observer) -> Summary {
    let mut r = Run { obs, sum: Summary::default() };
    let mut sink = std::io::sink();
    let dump = match r.op("Minidump::read", || Minidump::read(bytes)) {
        Some(Ok(d)) => {
            r.sum.read = "Ok";
            d
        }
        Some(Err(e)) => {
            r.sum.read = e.name();
            r.obs.op("(finished)");
            return r.sum;
        }
        None => {
            r.sum.read = "panic";
            r.obs.op("(finished)");
            return r.sum;
        }
    };
    r.op("Minidump::print", || {
        let _ = dump.print(&mut sink);
    });

    // ---- the streams others depend on
    let sys = r.stream("get_stream<MinidumpSystemInfo>", || dump.get_stream::<MinidumpSystemInfo>());
    let misc = r.stream("get_stream<MinidumpMiscInfo>", || dump.get_stream::<MinidumpMiscInfo>());
    let mem32 = r.stream("get_stream<MinidumpMemoryList>", || dump.get_stream::<MinidumpMemoryList>());
    let mem64 = r.stream("get_stream<MinidumpMemory64List>", || dump.get_stream::<MinidumpMemory64List>());
    let mem = r.op("Minidump::get_memory", || dump.get_memory()).flatten();
    let default_mem = UnifiedMemoryList::default();

    // ---- threads
    if let Some(tl) = r.stream("get_stream<MinidumpThreadList>", || dump.get_stream::<MinidumpThreadList>()) {
        r.sum.threads = tl.threads.len();
        r.op("MinidumpThreadList::print", || {
            let _ = tl.print(&mut sink, mem.as_ref(), sys.as_ref(), misc.as_ref(), false);
        });
        r.op("MinidumpThreadList::print", || {
            let _ = tl.print(&mut sink, mem.as_ref(), sys.as_ref(), misc.as_ref(), true);
        });
        r.op("MinidumpThreadList::print", || {
            let _ = tl.print(&mut sink, None, None, None, false);
            let _ = tl.print(&mut sink, None, None, None, true);
            let _ = tl.print(&mut sink, None, sys.as_ref(), None, false);
        });
        let m = mem.as_ref().unwrap_or(&default_mem);
        for t in &tl.threads {
            if let Some(s) = &sys {
                let ctx = r.op("MinidumpThread::context", || {
                    let _ = tl.get_thread(t.raw.thread_id);
                    let _ = t.context(s, None);
                    t.context(s, misc.as_ref())
                });
                if let Some(Some(c)) = ctx {
                    r.sum.contexts_ok += 1;
                    r.op("MinidumpContext registers", || {
                        let _ = (c.get_instruction_pointer(), c.get_stack_pointer(), c.register_size());
                        for (n, _) in c.valid_registers() {
                            let _ = c.format_register(n);
                            let _ = c.get_register(n);
                        }
                        for n in c.general_purpose_registers() {
                            let _ = c.get_register_always(n);
                        }
                        let _ = c.registers().count();
                        let _ = c.get_register("no-such-register");
                    });
                    r.op("MinidumpContext::print", || {
                        let _ = c.print(&mut sink);
                    });
                }
            }
            r.op("MinidumpThread::stack_memory", || {
                if let Some(s) = t.stack_memory(m) {
                    let _ = (s.memory_range(), s.base_address(), s.size(), s.bytes().len());
                    let b = s.base_address();
                    let _: Option<u64> = s.get_memory_at_address(b);
                    let _: Option<u32> = s.get_memory_at_address(b.wrapping_add(s.size()).wrapping_sub(4));
                    let _: Option<u64> = s.get_memory_at_address(b.wrapping_add(s.size()).wrapping_sub(4));
                }
                let _ = t.stack_memory(&default_mem).map(|s| s.memory_range());
            });
            r.op("MinidumpThread::last_error", || {
                for cpu in ALL_CPU {
                    let _ = t.last_error(cpu, m).map(|c| c.to_string());
                }
            });
            r.op("MinidumpThread::print", || {
                let _ = t.print(&mut sink, mem.as_ref(), sys.as_ref(), misc.as_ref(), false);
                let _ = t.print(&mut sink, None, None, None, true);
            });
        }
    }

    // ---- modules
    if let Some(ml) = r.stream("get_stream<MinidumpModuleList>", || dump.get_stream::<MinidumpModuleList>()) {
        r.sum.modules = ml.iter().count();
        r.op("MinidumpModuleList::print", || {
            let _ = ml.print(&mut sink);
        });
        r.op("MinidumpModuleList queries", || {
            let _ = ml.main_module().map(|m| m.code_file().len());
            for m in ml.iter() {
                let _ = (m.base_address(), m.size(), m.code_file().len(), m.code_identifier(), m.debug_file(), m.debug_identifier(), m.version());
                let _ = m.print(&mut sink);
                for a in around(m.base_address(), m.size()) {
                    let _ = ml.module_at_address(a).map(|x| x.base_address());
                }
            }
            let _ = ml.module_at_address(0);
            let _ = ml.module_at_address(u64::MAX);
            let _ = ml.by_addr().count();
            let _ = ml.by_addr().rev().count();
        });
    }
    if let Some(ul) = r.stream("get_stream<MinidumpUnloadedModuleList>", || dump.get_stream::<MinidumpUnloadedModuleList>()) {
        r.op("MinidumpUnloadedModuleList::print", || {
            let _ = ul.print(&mut sink);
        });
        r.op("MinidumpUnloadedModuleList queries", || {
            for m in ul.iter() {
                let _ = (m.base_address(), m.size(), m.code_file().len(), m.code_identifier(), m.debug_file(), m.debug_identifier(), m.version());
                let _ = m.print(&mut sink);
                for a in around(m.base_address(), m.size()) {
                    let _ = ul.modules_at_address(a).count();
                }
            }
            let _ = ul.modules_at_address(0).count();
            let _ = ul.modules_at_address(u64::MAX).count();
            let _ = ul.by_addr().count();
        });
    }

    // ---- handles
    if let Some(h) = r.stream("get_stream<MinidumpHandleDataStream>", || dump.get_stream::<MinidumpHandleDataStream>()) {
        r.op("MinidumpHandleDataStream::print", || {
            let _ = h.print(&mut sink);
            for d in h.iter() {
                let _ = d.print(&mut sink);
                let _ = (d.type_name.as_ref().map(|s| s.len()), d.object_name.as_ref().map(|s| s.len()), d.object_infos.len());
                for oi in &d.object_infos {
                    let _ = oi.to_string();
                }
            }
        });
    }

    // ---- memory
    if let Some(m) = &mem {
        r.op("UnifiedMemoryList::print", || {
            let _ = m.print(&mut sink, true);
            let _ = m.print(&mut sink, false);
        });
        r.op("memory queries", || {
            for reg in m.iter() {
                let _ = (reg.memory_range(), reg.bytes().len());
                let _ = reg.print(&mut sink, true);
                let _ = reg.print_contents(&mut sink);
                let (b, sz) = (reg.base_address(), reg.size());
                for a in around(b, sz) {
                    let _ = m.memory_at_address(a).map(|x| x.base_address());
                    let _: Option<u8> = reg.get_memory_at_address(a);
                    let _: Option<u16> = reg.get_memory_at_address(a);
                    let _: Option<u32> = reg.get_memory_at_address(a);
                    let _: Option<u64> = reg.get_memory_at_address(a);
                }
                let _: Option<u64> = reg.get_memory_at_address(b.wrapping_add(sz).wrapping_sub(8));
                let _: Option<u64> = reg.get_memory_at_address(b.wrapping_add(sz).wrapping_sub(7));
            }
            let _ = m.memory_at_address(0).is_some();
            let _ = m.memory_at_address(u64::MAX).is_some();
            let _ = m.by_addr().count();
        });
    }
    if let Some(l) = &mem32 {
        r.op("MinidumpMemoryList::print", || {
            let _ = l.print(&mut sink, true);
            let _ = l.print(&mut sink, false);
            for reg in l.iter() {
                let _ = reg.memory_range();
                for a in around(reg.base_address, reg.size) {
                    let _ = l.memory_at_address(a).map(|x| x.base_address);
                    let _: Option<u64> = reg.get_memory_at_address(a);
                }
            }
            let _ = l.by_addr().count();
        });
    }
    if let Some(l) = &mem64 {
        r.op("MinidumpMemory64List::print", || {
            let _ = l.print(&mut sink, true);
            let _ = l.print(&mut sink, false);
            for reg in l.iter() {
                let _ = reg.memory_range();
                for a in around(reg.base_address, reg.size) {
                    let _ = l.memory_at_address(a).map(|x| x.base_address);
                    let _: Option<u64> = reg.get_memory_at_address(a);
                }
            }
            let _ = l.by_addr().count();
        });
    }

    // ---- memory info, Linux maps, the unified view
    let info = r.stream("get_stream<MinidumpMemoryInfoList>", || dump.get_stream::<MinidumpMemoryInfoList>());
    if let Some(mi) = &info {
        r.op("MinidumpMemoryInfoList::print", || {
            let _ = mi.print(&mut sink);
        });
        r.op("MinidumpMemoryInfoList queries", || {
            for x in mi.iter() {
                let _ = (x.memory_range(), x.is_readable(), x.is_writable(), x.is_executable());
                let _ = x.print(&mut sink);
                for a in around(x.raw.base_address, x.raw.region_size) {
                    let _ = mi.memory_info_at_address(a).map(|y| y.raw.base_address);
                }
            }
            let _ = mi.memory_info_at_address(0).is_some();
            let _ = mi.memory_info_at_address(u64::MAX).is_some();
            let _ = mi.by_addr().count();
        });
    }
    let maps = r.stream("get_stream<MinidumpLinuxMaps>", || dump.get_stream::<MinidumpLinuxMaps>());
    if let Some(mp) = &maps {
        r.op("MinidumpLinuxMaps::print", || {
            let _ = mp.print(&mut sink);
        });
        r.op("MinidumpLinuxMaps queries", || {
            let _ = mp.memory_map_count();
            for x in mp.iter() {
                let _ = (x.memory_range(), x.is_readable(), x.is_writable(), x.is_executable());
                let _ = x.print(&mut sink);
                let (lo, hi) = x.map.address;
                for a in around(lo, hi.wrapping_sub(lo)) {
                    let _ = mp.memory_info_at_address(a).map(|y| y.map.address);
                }
            }
            let _ = mp.memory_info_at_address(0).is_some();
            let _ = mp.memory_info_at_address(u64::MAX).is_some();
            let _ = mp.by_addr().count();
        });
    }
    r.op("UnifiedMemoryInfoList", || {
        for (i, m) in [(info.clone(), maps.clone()), (info.clone(), None), (None, maps.clone())] {
            if let Some(u) = UnifiedMemoryInfoList::new(i, m) {
                let _ = u.print(&mut sink);
                let _ = (u.maps().is_some(), u.info().is_some());
                let ranges: Vec<_> = u.iter().map(|x| (x.memory_range(), x.is_readable(), x.is_writable(), x.is_executable())).collect();
                for (rg, ..) in ranges {
                    if let Some(rg) = rg {
                        for a in around(rg.start, rg.end.wrapping_sub(rg.start)) {
                            let _ = u.memory_info_at_address(a).map(|y| y.memory_range());
                        }
                    }
                }
                for x in u.by_addr() {
                    let _ = x.print(&mut sink);
                }
            }
        }
    });

    // ---- exception
    if let Some(e) = r.stream("get_stream<MinidumpException>", || dump.get_stream::<MinidumpException>()) {
        r.op("MinidumpException queries", || {
            for os in ALL_OS {
                for cpu in ALL_CPU {
                    let reason = e.get_crash_reason(os, cpu);
                    let _ = reason.to_string();
                    let _ = e.get_crash_address(os, cpu);
                }
            }
            let _ = e.get_crashing_thread_id();
        });
        if let Some(s) = &sys {
            r.op("MinidumpException::context", || {
                if let Some(c) = e.context(s, misc.as_ref()) {
                    let _ = (c.get_instruction_pointer(), c.get_stack_pointer());
                    let _ = c.valid_registers().count();
                }
            });
            r.op("MinidumpException queries", || {
                let reason = e.get_crash_reason(s.os, s.cpu);
                let _ = reason.to_string();
                let _ = e.get_crash_address(s.os, s.cpu);
            });
        }
        r.op("MinidumpException::print", || {
            let _ = e.print(&mut sink, sys.as_ref(), misc.as_ref());
        });
        r.op("MinidumpException::print", || {
            let _ = e.print(&mut sink, None, None);
        });
    }
    if let Some(a) = r.stream("get_stream<MinidumpAssertion>", || dump.get_stream::<MinidumpAssertion>()) {
        r.op("MinidumpAssertion::print", || {
            let _ = a.print(&mut sink);
            let _ = (a.expression(), a.function(), a.file());
        });
    }
    if let Some(s) = &sys {
        r.op("MinidumpSystemInfo::print", || {
            let _ = s.print(&mut sink);
        });
        r.op("MinidumpSystemInfo queries", || {
            let _ = (s.os_parts(), s.csd_version(), s.cpu_info());
            let _ = (s.os.to_string(), s.cpu.to_string(), s.os.long_name(), s.cpu.pointer_width());
        });
    }
    if let Some(m) = &misc {
        r.op("MinidumpMiscInfo::print", || {
            let _ = m.print(&mut sink);
            let _ = m.process_create_time();
        });
    }
    if let Some(t) = r.stream("get_stream<MinidumpThreadNames>", || dump.get_stream::<MinidumpThreadNames>()) {
        r.op("MinidumpThreadNames::print", || {
            let _ = t.print(&mut sink);
            for id in [0u32, 1, 5, 10, 11, 12, u32::MAX] {
                let _ = t.get_name(id).map(|n| n.len());
            }
        });
    }
    if let Some(t) = r.stream("get_stream<MinidumpThreadInfoList>", || dump.get_stream::<MinidumpThreadInfoList>()) {
        r.op("MinidumpThreadInfoList::print", || {
            let _ = t.print(&mut sink);
            for id in [0u32, 1, 5, 10, 11, 12, u32::MAX] {
                if let Some(i) = t.get_thread_info(id) {
                    let _ = i.print(&mut sink);
                }
            }
        });
    }
    if let Some(b) = r.stream("get_stream<MinidumpBreakpadInfo>", || dump.get_stream::<MinidumpBreakpadInfo>()) {
        r.op("MinidumpBreakpadInfo::print", || {
            let _ = b.print(&mut sink);
            let _ = (b.dump_thread_id, b.requesting_thread_id);
        });
    }
    if let Some(c) = r.stream("get_stream<MinidumpCrashpadInfo>", || dump.get_stream::<MinidumpCrashpadInfo>()) {
        r.op("MinidumpCrashpadInfo::print", || {
            let _ = c.print(&mut sink);
            let _ = (c.simple_annotations.len(), c.module_list.len());
            for m in &c.module_list {
                let _ = (m.module_index, m.list_annotations.len(), m.simple_annotations.len(), m.annotation_objects.len());
            }
        });
    }
    if let Some(c) = r.stream("get_stream<MinidumpMacCrashInfo>", || dump.get_stream::<MinidumpMacCrashInfo>()) {
        r.op("MinidumpMacCrashInfo::print", || {
            let _ = c.print(&mut sink);
            for rec in &c.raw {
                let _ = (rec.version(), rec.thread(), rec.dialog_mode(), rec.abort_cause());
                let _ = (rec.module_path(), rec.message(), rec.signature_string(), rec.backtrace(), rec.message2());
            }
        });
    }
    if let Some(c) = r.stream("get_stream<MinidumpMacBootargs>", || dump.get_stream::<MinidumpMacBootargs>()) {
        r.op("MinidumpMacBootargs::print", || {
            let _ = c.print(&mut sink);
        });
    }

    // ---- Linux text streams: key/value iterators
    let cpuinfo = r.stream("get_stream<MinidumpLinuxCpuInfo>", || dump.get_stream::<MinidumpLinuxCpuInfo>());
    let environ = r.stream("get_stream<MinidumpLinuxEnviron>", || dump.get_stream::<MinidumpLinuxEnviron>());
    let lsb = r.stream("get_stream<MinidumpLinuxLsbRelease>", || dump.get_stream::<MinidumpLinuxLsbRelease>());
    let status = r.stream("get_stream<MinidumpLinuxProcStatus>", || dump.get_stream::<MinidumpLinuxProcStatus>());
    let limits = r.stream("get_stream<MinidumpLinuxProcLimits>", || dump.get_stream::<MinidumpLinuxProcLimits>());
    let soft = r.stream("get_stream<MinidumpSoftErrors>", || dump.get_stream::<MinidumpSoftErrors>());
    r.op("text stream iterators", || {
        fn kv<'a>(it: impl Iterator<Item = (&'a minidump::strings::LinuxOsStr, &'a minidump::strings::LinuxOsStr)>) {
            for (k, v) in it {
                let _ = (k.to_string_lossy().len(), v.to_string_lossy().len(), k.to_str().is_ok(), v.as_bytes().len());
            }
        }
        if let Some(s) = &cpuinfo {
            kv(s.iter());
            let _ = s.raw_bytes().len();
        }
        if let Some(s) = &environ {
            kv(s.iter());
            let _ = s.raw_bytes().len();
        }
        if let Some(s) = &lsb {
            kv(s.iter());
            let _ = s.raw_bytes().len();
        }
        if let Some(s) = &status {
            kv(s.iter());
            let _ = s.raw_bytes().len();
        }
        if let Some(s) = &limits {
            for l in s.iter() {
                let _ = l.to_string_lossy().len();
                let _ = l.split_ascii_whitespace().count();
            }
            let _ = s.raw_bytes().len();
        }
        if let Some(s) = &soft {
            let _ = s.as_ref().len();
        }
    });

    // ---- raw access to every directory entry, unknown / unimplemented listings
    r.op("raw streams", || {
        let types: Vec<u32> = dump.all_streams().map(|d| d.stream_type).collect();
        for t in types {
            if let Ok(b) = dump.get_raw_stream(t) {
                // what print_raw_stream of minidump-stackwalk does with it
                let _ = b.split(|&v| v == 0).map(String::from_utf8_lossy).collect::<Vec<_>>().join("\\0\n").len();
            }
        }
        for s in crate::seeds::ALL_STREAM_TYPES {
            let _ = dump.get_raw_stream(*s as u32).map(|b| b.len());
        }
        let _ = dump.unknown_streams().map(|s| (s.stream_type, s.vendor)).count();
        let _ = dump.unimplemented_streams().map(|s| (s.stream_type, s.vendor)).count();
        let _ = (dump.endian, dump.header.stream_count);
    });
    r.obs.op("(finished)");
    r.sum
}

/// Observer that only counts (for callers that have their own monitors).
#[derive(Default)]
pub struct Quiet {
    pub last_op: &'static str,
    pub panics: Vec<(&'static str, PanicInfo)>,
}
impl Observer for Quiet {
    fn op(&mut self, label: &'static str) {
        self.last_op = label;
    }
    fn panic(&mut self, label: &'static str, p: &PanicInfo) {
        self.panics.push((label, p.clone()));
    }
}
