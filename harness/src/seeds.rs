//! Seed dumps for the untrusted-input sweeps (C01, C03, C20).
//!
//! `synthetic_seeds()` builds ~35 small dumps (each in little- and big-endian form) that
//! together contain every stream type the reader knows, every CPU context kind, both handle
//! descriptor versions (with an object-information chain), every misc-info / mac-crash-info
//! version, crashpad module links with all annotation kinds, every CodeView record kind and
//! both memory lists. Every seed is kept small so that a one-deviation sweep over all its
//! offsets stays cheap. `corpus_seeds()` returns the non-empty `*.dmp` files of /repo/testdata.
//! `fanin(..)` builds the "k references share one child of size s" shapes of DESIGN §3 C01.
//!
//! Everything here is deterministic (no clocks, no randomness, no hash-order dependence).
use minidump_common::format as md;
use minidump_synth as synth;
use minidump_synth::{DumpSection, SectionExtra};
use scroll::{Pread, Pwrite};
use test_assembler::*;

pub type Seed = (String, Vec<u8>);

fn sc(e: Endian) -> scroll::Endian {
    match e {
        Endian::Little => scroll::LE,
        Endian::Big => scroll::BE,
    }
}
fn tag(e: Endian) -> &'static str {
    match e {
        Endian::Little => "le",
        Endian::Big => "be",
    }
}

/// A zeroed CPU context of type `T` with its flags word set so that the reader accepts it.
fn ctx_bytes<T>(flags_off: usize, flags: u64, wide: bool, e: Endian) -> Vec<u8>
where
    T: for<'a> scroll::ctx::TryFromCtx<'a, scroll::Endian, [u8], Error = scroll::Error> + scroll::ctx::SizeWith<scroll::Endian>,
{
    let n = T::size_with(&sc(e));
    let mut b = vec![0u8; n];
    if wide {
        b.pwrite_with(flags, flags_off, sc(e)).expect("ctx flags");
    } else {
        b.pwrite_with(flags as u32, flags_off, sc(e)).expect("ctx flags");
    }
    // a few recognisable register values so that prints/lookups see non-zero data
    let _: T = b.pread_with(0, sc(e)).expect("ctx reads back");
    b
}

fn sysinfo(e: Endian, arch: md::ProcessorArchitecture, os: md::PlatformId) -> synth::SystemInfo {
    synth::SystemInfo::new(e).set_processor_architecture(arch as u16).set_platform_id(os as u32)
}

fn simple(ty: u32, section: Section) -> synth::SimpleStream {
    synth::SimpleStream { stream_type: ty, section }
}

/// MINIDUMP_EXCEPTION_STREAM citing `ctx` (synth's own `Exception` cannot cite a context).
fn exception_stream(e: Endian, tid: u32, code: u32, flags: u32, addr: u64, nparams: u32, ctx: Option<&Section>) -> synth::SimpleStream {
    let mut s = Section::with_endian(e).D32(tid).D32(0).D32(code).D32(flags).D64(0).D64(addr).D32(nparams).D32(0);
    for i in 0..15u64 {
        s = s.D64(if i < 2 { [1u64, addr][i as usize] } else { 0x1000 + i });
    }
    s = match ctx {
        Some(c) => s.cite_location(c),
        None => s.D32(0).D32(0),
    };
    simple(md::MINIDUMP_STREAM_TYPE::ExceptionStream as u32, s)
}

/// The 9 CPU context kinds: (name, architecture, os, context bytes)
fn cpu_kinds(e: Endian) -> Vec<(&'static str, md::ProcessorArchitecture, md::PlatformId, Vec<u8>)> {
    use md::PlatformId as P;
    use md::ProcessorArchitecture::*;
    let sect = |s: Section| s.get_contents().expect("ctx section");
    vec![
        ("x86", PROCESSOR_ARCHITECTURE_INTEL, P::VER_PLATFORM_WIN32_NT, sect(synth::x86_context(e, 0x0040_1010, 0x7000_0010))),
        ("amd64", PROCESSOR_ARCHITECTURE_AMD64, P::VER_PLATFORM_WIN32_NT, sect(synth::amd64_context(e, 0x0040_1010, 0x7000_0010))),
        ("arm64", PROCESSOR_ARCHITECTURE_ARM64, P::MacOs, sect(synth::arm64_context(e, 0x0040_1010, 0x7000_0010))),
        ("arm", PROCESSOR_ARCHITECTURE_ARM, P::Android, ctx_bytes::<md::CONTEXT_ARM>(0, 0x4000_0000 | 0x6, false, e)),
        ("arm64old", PROCESSOR_ARCHITECTURE_ARM64_OLD, P::Ios, ctx_bytes::<md::CONTEXT_ARM64_OLD>(0, 0x8000_0000 | 0x6, true, e)),
        ("mips", PROCESSOR_ARCHITECTURE_MIPS, P::Linux, ctx_bytes::<md::CONTEXT_MIPS>(0, 0x0004_0000 | 0x6, false, e)),
        ("ppc", PROCESSOR_ARCHITECTURE_PPC, P::MacOs, ctx_bytes::<md::CONTEXT_PPC>(0, 0x2000_0000 | 0x3, false, e)),
        ("ppc64", PROCESSOR_ARCHITECTURE_PPC64, P::MacOs, ctx_bytes::<md::CONTEXT_PPC64>(0, 0x0100_0000 | 0x3, true, e)),
        ("sparc", PROCESSOR_ARCHITECTURE_SPARC, P::Solaris, ctx_bytes::<md::CONTEXT_SPARC>(0, 0x1000_0000 | 0x3, false, e)),
    ]
}

fn finish(name: &str, e: Endian, d: synth::SynthMinidump) -> Seed {
    (format!("{name}-{}", tag(e)), d.finish().unwrap_or_else(|| panic!("seed {name}: unresolved label")))
}

/// All synthetic seeds in one byte order.
fn seeds_for(e: Endian) -> Vec<Seed> {
    use md::MINIDUMP_STREAM_TYPE as ST;
    use md::PlatformId as P;
    use md::ProcessorArchitecture::*;
    let mut out: Vec<Seed> = vec![];
    let new = || synth::SynthMinidump::with_endian(e);
    let sec = || Section::with_endian(e);

    // every seed has a thread, so that PROCESSING it (C03) gets past the thread list to the streams it carries
    let threaded = |d: synth::SynthMinidump, amd64: bool, tid: u32| -> synth::SynthMinidump {
        let stack = synth::Memory::with_section(Section::with_endian(e).D64(0x0040_1020).append_repeated(0, 24), 0x7000_0000);
        let ctx = if amd64 { synth::amd64_context(e, 0x0040_1010, 0x7000_0008) } else { synth::x86_context(e, 0x0040_1010, 0x7000_0008) };
        d.add_thread(synth::Thread::new(e, tid, &stack, &ctx)).add_memory(stack).add(ctx)
    };

    // ---- handle data, descriptor version 2 with an object-information chain
    {
        let mut d = new().add_system_info(sysinfo(e, PROCESSOR_ARCHITECTURE_AMD64, P::VER_PLATFORM_WIN32_NT));
        let oi2 = sec().D32(0).D32(2).D32(16).D32(0xaaaa);
        let oi1 = sec().D32(&oi2.file_offset()).D32(1).D32(16).D32(0xbbbb);
        let tn = synth::DumpString::new("File", e);
        let on = synth::DumpString::new("\\Device\\x", e);
        let hs = sec()
            .D32(16).D32(40).D32(2).D32(0)
            .D64(0x44).D32(&tn.file_offset()).D32(&on.file_offset()).D32(1).D32(2).D32(3).D32(4).D32(&oi1.file_offset()).D32(0)
            .D64(0x48).D32(0).D32(0).D32(0).D32(0).D32(0).D32(0).D32(0).D32(0);
        d = d.add_stream(simple(ST::HandleDataStream as u32, hs)).add(tn).add(on).add(oi1).add(oi2);
        out.push(finish("handles2", e, threaded(d, true, 5)));
    }
    // ---- handle data, descriptor version 1 (through synth)
    {
        let mut d = new().add_system_info(sysinfo(e, PROCESSOR_ARCHITECTURE_INTEL, P::VER_PLATFORM_WIN32_NT));
        let tn = synth::DumpString::new("Event", e);
        let on = synth::DumpString::new("ev", e);
        d = d
            .add_handle_descriptor(synth::HandleDescriptor::new(e, 0x10, Some(&tn), Some(&on), 1, 2, 3, 4))
            .add_handle_descriptor(synth::HandleDescriptor::new(e, 0x14, None, None, 0, 0, 0, 0))
            .add(tn)
            .add(on);
        out.push(finish("handles1", e, threaded(d, false, 5)));
    }
    // ---- thread info list + thread names + breakpad info
    {
        let mut d = new().add_system_info(sysinfo(e, PROCESSOR_ARCHITECTURE_AMD64, P::VER_PLATFORM_WIN32_NT));
        let mut ti = sec().D32(12).D32(64).D32(2);
        for t in 0..2u32 {
            ti = ti.D32(10 + t).D32(t).D32(0).D32(0).D64(0x01d6_0000_0000_0000).D64(2).D64(3).D64(4).D64(5).D64(6);
        }
        d = d.add_stream(simple(ST::ThreadInfoListStream as u32, ti));
        d = d.add_stream(simple(ST::BreakpadInfoStream as u32, sec().D32(3).D32(10).D32(11)));
        for t in 0..2u32 {
            let n = synth::DumpString::new(if t == 0 { "main" } else { "wörker" }, e);
            d = d.add_thread_name(synth::ThreadName::new(e, 10 + t, Some(&n))).add(n);
        }
        d = d.add_thread_name(synth::ThreadName::new(e, 12, None));
        out.push(finish("threadinfo", e, threaded(d, true, 10)));
    }
    // ---- assertion
    {
        let mut d = new().add_system_info(sysinfo(e, PROCESSOR_ARCHITECTURE_INTEL, P::VER_PLATFORM_WIN32_NT));
        let mut a = sec();
        for part in 0..3u16 {
            for i in 0..128u16 {
                a = a.D16(if i < 5 + part { 0x41 + part + i } else { 0 });
            }
        }
        a = a.D32(7).D32(1);
        d = d.add_stream(simple(ST::AssertionInfoStream as u32, a));
        out.push(finish("assertion", e, threaded(d, false, 7)));
    }
    // ---- misc info, versions 1..5
    for v in 1..=5u32 {
        let mut d = new().add_system_info(sysinfo(e, PROCESSOR_ARCHITECTURE_AMD64, P::VER_PLATFORM_WIN32_NT));
        let mut m = synth::MiscStream::new(e);
        m.process_id = Some(42);
        m.process_times = Some(synth::MiscFieldsProcessTimes { process_create_time: 0x5000_0000, process_user_time: 3, process_kernel_time: 4 });
        if v >= 2 {
            m.power_info = Some(Default::default());
        }
        if v >= 3 {
            m.process_integrity_level = Some(1);
            m.process_execute_flags = Some(2);
            m.protected_process = Some(0);
            m.time_zone = Some(Default::default());
        }
        if v >= 4 {
            let mut b = synth::MiscFieldsBuildString::default();
            for (i, c) in "build 1".encode_utf16().enumerate() {
                b.build_string[i] = c;
                b.dbg_bld_str[i] = c;
            }
            m.build_strings = Some(b);
        }
        if v >= 5 {
            // XSAVE features 0, 2 and the very last one (63) enabled
            let xstate_data = md::XSTATE_CONFIG_FEATURE_MSC_INFO { enabled_features: 0x8000_0000_0000_0005, context_size: 0x400, ..Default::default() };
            m.misc_5 = Some(synth::MiscInfo5Fields { xstate_data, process_cookie: Some(9) });
        }
        d = d.add_stream(m);
        out.push(finish(&format!("misc{v}"), e, threaded(d, true, 5)));
    }
    // ---- one thread + exception + memory list entry for every CPU context kind
    for (nm, arch, os, bytes) in cpu_kinds(e) {
        let mut d = new().add_system_info(sysinfo(e, arch, os));
        let stack = synth::Memory::with_section(sec().D64(0x0040_1020).D64(0x7000_0030).append_repeated(0x11, 48), 0x7000_0000);
        let ctx = sec().append_bytes(&bytes);
        let nparams = if nm == "x86" { 15 } else { 2 };
        // an exception the OS's own decoder reads parameters for: EXC_RESOURCE (memory) on macOS, EXC_GUARD (file
        // descriptor) on iOS - both look at the code, the flags and two further parameters
        let (code, flags, nparams) = match os {
            P::MacOs => (11, 3 << 29, 3),
            P::Ios => (12, 2 << 29, 3),
            _ => (0xC000_0005, 0, nparams),
        };
        d = d.add_stream(exception_stream(e, 5, code, flags, 0x0040_1010, nparams, Some(&ctx)));
        d = d.add_thread(synth::Thread::new(e, 5, &stack, &ctx)).add_memory(stack).add(ctx);
        out.push(finish(&format!("cpu-{nm}"), e, d));
    }
    // ---- crashpad info: module links, list / simple annotations, annotation objects of every kind
    {
        let mut d = new().add_system_info(sysinfo(e, PROCESSOR_ARCHITECTURE_INTEL, P::Linux));
        let m1 = synth::ModuleCrashpadInfo::new(0, e)
            .add_list_annotation("one")
            .add_list_annotation("two")
            .add_simple_annotation("k", "v")
            .add_annotation_object("obj", synth::AnnotationValue::String("s".into()))
            .add_annotation_object("inv", synth::AnnotationValue::Invalid)
            .add_annotation_object("usr", synth::AnnotationValue::Custom(0x8001, vec![1, 2, 3, 4]))
            .add_annotation_object("uns", synth::AnnotationValue::Custom(0x0002, vec![5, 6]));
        let m2 = synth::ModuleCrashpadInfo::new(1, e).add_list_annotation("three");
        d = d.add_crashpad_info(synth::CrashpadInfo::new(e).add_simple_annotation("a", "b").add_simple_annotation("c", "d").add_module(m1).add_module(m2));
        out.push(finish("crashpad", e, threaded(d, false, 5)));
    }
    // ---- crashpad info with long values made of two-byte characters, in both alignments: every byte offset up to
    // 1200 falls inside a character of one of them (a printer that shortens values must cut between characters)
    {
        let mut d = new().add_system_info(sysinfo(e, PROCESSOR_ARCHITECTURE_INTEL, P::Linux));
        let even = "\u{e9}".repeat(600);
        let odd = format!("x{even}");
        let m1 = synth::ModuleCrashpadInfo::new(0, e)
            .add_list_annotation(&odd)
            .add_simple_annotation("long-even", &even)
            .add_annotation_object("long-odd", synth::AnnotationValue::String(odd.clone()));
        d = d.add_crashpad_info(synth::CrashpadInfo::new(e).add_simple_annotation("even", &even).add_simple_annotation("odd", &odd).add_module(m1));
        out.push(finish("crashpad-long-values", e, threaded(d, false, 5)));
    }
    // ---- modules with every CodeView kind + misc record, unloaded modules
    {
        let mut d = new().add_system_info(sysinfo(e, PROCESSOR_ARCHITECTURE_AMD64, P::VER_PLATFORM_WIN32_NT));
        let n1 = synth::DumpString::new("c:\\a.exe", e);
        let cv1 = sec().D32(md::CvSignature::Pdb70 as u32).D32(0x0102_0304).D16(0x0506).D16(0x0708).append_bytes(&[9, 10, 11, 12, 13, 14, 15, 16]).D32(1).append_bytes(b"a.pdb\0");
        let misc1 = sec().D32(1).D32(20).D8(0).D8(0).D8(0).D8(0).append_bytes(b"a.dbg\0\0\0");
        d = d.add_module(synth::Module::new(e, 0x0040_0000, 0x1000, &n1, 0x4000_0000, 7, None).cv_record(&cv1).misc_record(&misc1)).add(n1).add(cv1).add(misc1);
        let n2 = synth::DumpString::new("b.dll", e);
        let cv2 = sec().D32(md::CvSignature::Pdb20 as u32).D32(0).D32(0x4000_0001).D32(2).append_bytes(b"b.pdb\0");
        let misc2 = sec().D32(1).D32(24).D8(1).D8(0).D8(0).D8(0).D16(0x62).D16(0x2e).D16(0x64).D16(0).D16(0).D16(0);
        d = d.add_module(synth::Module::new(e, 0x0040_1000, 0x1000, &n2, 0x4000_0001, 8, None).cv_record(&cv2).misc_record(&misc2)).add(n2).add(cv2).add(misc2);
        let n3 = synth::DumpString::new("/lib/c.so", e);
        let cv3 = sec().D32(md::CvSignature::Elf as u32).append_bytes(&[1, 2, 3, 4, 5, 6, 7, 8, 9, 10, 11, 12, 13, 14, 15, 16, 17, 18, 19, 20]);
        d = d.add_module(synth::Module::new(e, 0xffff_ffff_ffff_f000, 0x1000, &n3, 0, 0, None).cv_record(&cv3)).add(n3).add(cv3);
        let n4 = synth::DumpString::new("d", e);
        let cv4 = sec().D32(md::CvSignature::Cv50 as u32).D32(0).D32(0);
        d = d.add_module(synth::Module::new(e, 0x0040_3000, 0, &n4, 0, 0, None).cv_record(&cv4)).add(n4).add(cv4);
        let um = synth::DumpString::new("gone.dll", e);
        d = d
            .add_unloaded_module(synth::UnloadedModule::new(e, 0x5000_0000, 0x1000, &um, 1, 2))
            .add_unloaded_module(synth::UnloadedModule::new(e, 0x5000_0800, 0x1000, &um, 3, 4))
            .add(um);
        out.push(finish("modules", e, threaded(d, true, 5)));
    }
    // ---- both memory lists + memory info list
    {
        let mut d = new().add_system_info(sysinfo(e, PROCESSOR_ARCHITECTURE_AMD64, P::VER_PLATFORM_WIN32_NT));
        d = d
            .add_memory(synth::Memory::with_section(sec().append_repeated(3, 24), 0x3000))
            .add_memory(synth::Memory::with_section(sec().append_repeated(4, 16), 0xffff_ffff_ffff_fff0))
            .add_memory64(synth::Memory::with_section(sec().append_repeated(1, 32), 0x1000))
            .add_memory64(synth::Memory::with_section(sec().append_repeated(2, 16), 0x2000))
            .add_memory_info(synth::MemoryInfo::new(e, 0x1_0000, 0x1_0000, 4, 0x1000, 0x1000, 4, 0x2_0000))
            .add_memory_info(synth::MemoryInfo::new(e, 0x1_1000, 0x1_0000, 0x20, 0x1000, 0x1000, 0x20, 0x100_0000))
            .add_memory_info(synth::MemoryInfo::new(e, 0xffff_ffff_ffff_f000, 0, 1, 0x1000, 0x1_0000, 1, 0));
        out.push(finish("memory", e, d));
    }
    // ---- Linux text streams whose lines have blank / whitespace-only keys and values, no separator, CR line ends
    {
        let d = new()
            .add_system_info(sysinfo(e, PROCESSOR_ARCHITECTURE_AMD64, P::Linux))
            .set_linux_lsb_release(b"DISTRIB_ID= \nDISTRIB_RELEASE=\n =x\nDISTRIB_CODENAME=\t \t\nnoseparator\n=\nDISTRIB_DESCRIPTION=\"\"\r\n")
            .set_linux_proc_status(b"Name:\t \nPid:\t\n\t:\t1\n:\nUid:\t1\t 2\r\n")
            .set_linux_cpu_info(b"processor\t: \nmicrocode\t:\t \n \t: 3\nFeatures\t: \n\n\nmodel name : \n")
            .set_linux_environ(b" = \0=\0 \0A\0");
        // (with a thread, so that processing gets as far as reading the text streams)
        let stack = synth::Memory::with_section(sec().append_repeated(0, 32), 0x7000_0000);
        let ctx = synth::amd64_context(e, 0x0040_1010, 0x7000_0010);
        let d = d.add_thread(synth::Thread::new(e, 5, &stack, &ctx)).add_memory(stack).add(ctx);
        out.push(finish("linux-blank-values", e, d));
    }
    // ---- Linux text streams
    {
        let mut d = new().add_system_info(sysinfo(e, PROCESSOR_ARCHITECTURE_INTEL, P::Linux));
        d = d
            .set_linux_maps(b"00400000-00401000 r-xp 00000000 00:00 0 /bin/x\n00401000-00402000 rw-p 00000000 00:00 0 [heap]\nffffffffff600000-ffffffffff601000 --xp 00000000 00:00 0 [vsyscall]\n")
            .set_linux_lsb_release(b"DISTRIB_ID=x\nDISTRIB_RELEASE=\"1\"\n")
            .set_linux_proc_status(b"Name:\tx\nPid:\t5\n")
            .set_linux_cpu_info(b"processor : 0\nmicrocode : 0x1\n\nprocessor : 1\n")
            .set_linux_environ(b"A=B\0C=\0")
            .set_linux_proc_limits(b"Limit Soft Hard Units\nMax cpu time  1  2  s\nMax x unlimited unlimited\n")
            .set_soft_errors("[{\"x\":1}]");
        d = d.add_stream(simple(ST::LinuxCmdLine as u32, sec().append_bytes(b"/bin/x\0-a\0")));
        d = d.add_stream(simple(ST::LinuxAuxv as u32, sec().D32(3).D32(0x40).D32(0).D32(0)));
        d = d.add_stream(simple(ST::LinuxDsoDebug as u32, sec().D32(1).D32(0).D32(0).D32(0)));
        // (with a thread, so that processing gets as far as reading the text streams)
        let stack = synth::Memory::with_section(sec().append_repeated(0, 32), 0x7000_0000);
        let ctx = synth::x86_context(e, 0x0040_0010, 0x7000_0010);
        d = d.add_thread(synth::Thread::new(e, 5, &stack, &ctx)).add_memory(stack).add(ctx);
        out.push(finish("linux", e, d));
    }
    // ---- mac crash info, record versions 1, 4 and 5 + boot args
    for v in [1u64, 4, 5] {
        let mut d = new().add_system_info(sysinfo(e, PROCESSOR_ARCHITECTURE_AMD64, P::MacOs));
        let fixed: u32 = match v {
            1 => 16,
            4 => 32,
            _ => 40,
        };
        let mut recs = vec![];
        for r in 0..2u64 {
            let mut s = sec().D64(ST::MozMacosCrashInfoStream as u32 as u64).D64(v);
            if v >= 4 {
                s = s.D64(7 + r).D64(1);
            }
            if v >= 5 {
                s = s.D64(3);
            }
            if v >= 4 {
                s = s.append_bytes(b"/m\0").append_bytes(b"msg\0").append_bytes(b"sig\0").append_bytes(b"bt\0").append_bytes(b"\0");
            }
            recs.push(s);
        }
        let mut h = sec().D32(ST::MozMacosCrashInfoStream as u32).D32(2).D32(fixed);
        for i in 0..20 {
            h = match recs.get(i) {
                Some(r) => h.cite_location(r),
                None => h.D32(0).D32(0),
            };
        }
        d = d.add_stream(simple(ST::MozMacosCrashInfoStream as u32, h));
        for r in recs {
            d = d.add(r);
        }
        let ba = synth::DumpString::new("-v x=1", e);
        d = d.add_stream(simple(ST::MozMacosBootargsStream as u32, sec().D32(ST::MozMacosBootargsStream as u32).D64(&ba.file_offset()))).add(ba);
        out.push(finish(&format!("mac{v}"), e, threaded(d, true, 5)));
    }
    // ---- system info with a CSD string and non-x86 cpu info; unknown / unimplemented / duplicate / empty streams
    {
        let csd = synth::DumpString::new("Service Pack 1", e);
        let si = sec()
            .D16(PROCESSOR_ARCHITECTURE_ARM64 as u16).D16(6).D16(0x0102).D8(4).D8(1)
            .D32(10).D32(0).D32(19041).D32(P::VER_PLATFORM_WIN32_NT as u32)
            .D32(&csd.file_offset()).D16(0x100).D16(0)
            .D64(0x1234_5678).D64(0xff).D64(0);
        let mut d = new().add_stream(simple(ST::SystemInfoStream as u32, si)).add(csd);
        d = d.add_stream(simple(0x1234_5678, sec().D32(1).D32(2)));
        d = d.add_stream(simple(ST::CommentStreamA as u32, sec().append_bytes(b"hello\0")));
        d = d.add_stream(simple(ST::CommentStreamW as u32, sec().D16(0x68).D16(0x69).D16(0)));
        d = d.add_stream(simple(ST::FunctionTable as u32, sec().D32(0).D32(0)));
        d = d.add_stream(simple(ST::UnusedStream as u32, sec()));
        d = d.add_stream(simple(ST::BreakpadInfoStream as u32, sec().D32(1).D32(1).D32(2)));
        d = d.add_stream(simple(ST::BreakpadInfoStream as u32, sec().D32(3).D32(3).D32(4)));
        out.push(finish("sysinfo-misc-streams", e, threaded(d, false, 5)));
    }
    // ---- a "whole process" dump: two x86 threads sharing the file with modules, names, memory, exception
    {
        let mut d = new().add_system_info(sysinfo(e, PROCESSOR_ARCHITECTURE_INTEL, P::VER_PLATFORM_WIN32_NT));
        let ctx0 = synth::x86_context(e, 0x0040_0010, 0x7000_0000);
        d = d.add_stream(exception_stream(e, 11, 0x8000_0003, 1, 0x0040_0010, 0, Some(&ctx0)));
        d = d.add_stream(simple(ST::BreakpadInfoStream as u32, sec().D32(3).D32(10).D32(11)));
        for t in 0..2u32 {
            let stack = synth::Memory::with_section(sec().append_repeated(0, 32), 0x7000_0000 + 0x1000 * t as u64);
            let th = if t == 0 {
                synth::Thread::new(e, 10, &stack, &ctx0)
            } else {
                synth::Thread::new(e, 11, &stack, &ctx0)
            };
            d = d.add_thread(th).add_memory(stack);
        }
        d = d.add(ctx0);
        let n = synth::DumpString::new("x.exe", e);
        d = d.add_module(synth::Module::new(e, 0x0040_0000, 0x1000, &n, 0, 0, None)).add(n);
        out.push(finish("process-x86", e, d));
    }
    out
}

/// Every synthetic seed, little-endian ones first. Names end in `-le` / `-be`.
pub fn synthetic_seeds() -> Vec<Seed> {
    let mut v = seeds_for(Endian::Little);
    v.extend(seeds_for(Endian::Big));
    v
}

/// The non-empty `*.dmp` files of /repo/testdata, sorted by name.
pub fn corpus_seeds() -> Vec<Seed> {
    let dir = format!("{}/testdata", crate::core::REPO_ROOT);
    let mut names: Vec<String> = std::fs::read_dir(&dir)
        .unwrap_or_else(|e| panic!("cannot list {dir}: {e}"))
        .filter_map(|d| d.ok())
        .map(|d| d.file_name().to_string_lossy().to_string())
        .filter(|n| n.ends_with(".dmp"))
        .collect();
    names.sort();
    let mut out = vec![];
    for n in names {
        let b = std::fs::read(format!("{dir}/{n}")).unwrap_or_else(|e| panic!("cannot read {n}: {e}"));
        if !b.is_empty() {
            out.push((format!("corpus/{n}"), b));
        }
    }
    out
}

// ---------------------------------------------------------------------------------------------
// header / directory of a seed, read independently of the code under test

#[derive(Clone, Debug)]
pub struct DirEntry {
    pub stream_type: u32,
    pub size: u32,
    pub rva: u32,
}
#[derive(Clone, Debug, Default)]
pub struct Layout {
    pub big_endian: bool,
    pub dir_rva: u32,
    pub entries: Vec<DirEntry>,
}
impl Layout {
    /// What a file offset belongs to: "header", "directory", "stream:<type name or number>" or "aux"
    /// (bytes referenced from a stream by RVA, outside every directory range).
    pub fn region(&self, off: usize) -> String {
        if off < 32 {
            return "header".into();
        }
        let o = off as u64;
        let d = self.dir_rva as u64;
        if o >= d && o < d + 12 * self.entries.len() as u64 {
            return "directory".into();
        }
        // the innermost (smallest) enclosing stream, first in directory order on ties
        let mut best: Option<&DirEntry> = None;
        for e in &self.entries {
            if e.size > 0 && o >= e.rva as u64 && o < e.rva as u64 + e.size as u64 && best.map_or(true, |b| e.size < b.size) {
                best = Some(e);
            }
        }
        match best {
            Some(e) => format!("stream:{}", stream_name(e.stream_type)),
            None => "aux".into(),
        }
    }
    /// rva of the innermost directory range that contains `off`
    pub fn enclosing_start(&self, off: usize) -> Option<u32> {
        let o = off as u64;
        let mut best: Option<&DirEntry> = None;
        for e in &self.entries {
            if e.size > 0 && o >= e.rva as u64 && o < e.rva as u64 + e.size as u64 && best.map_or(true, |b| e.size < b.size) {
                best = Some(e);
            }
        }
        best.map(|e| e.rva)
    }
}
pub fn stream_name(t: u32) -> String {
    match ALL_STREAM_TYPES.iter().find(|s| **s as u32 == t) {
        Some(s) => format!("{s:?}"),
        None => format!("{t:#x}"),
    }
}

/// Every stream type constant minidump-common defines.
pub const ALL_STREAM_TYPES: &[md::MINIDUMP_STREAM_TYPE] = {
    use md::MINIDUMP_STREAM_TYPE::*;
    &[
        UnusedStream, ReservedStream0, ReservedStream1, ThreadListStream, ModuleListStream, MemoryListStream, ExceptionStream, SystemInfoStream,
        ThreadExListStream, Memory64ListStream, CommentStreamA, CommentStreamW, HandleDataStream, FunctionTable, UnloadedModuleListStream,
        MiscInfoStream, MemoryInfoListStream, ThreadInfoListStream, HandleOperationListStream, TokenStream, JavaScriptDataStream,
        SystemMemoryInfoStream, ProcessVmCountersStream, IptTraceStream, ThreadNamesStream, ceStreamNull, ceStreamSystemInfo, ceStreamException,
        ceStreamModuleList, ceStreamProcessList, ceStreamThreadList, ceStreamThreadContextList, ceStreamThreadCallStackList,
        ceStreamMemoryVirtualList, ceStreamMemoryPhysicalList, ceStreamBucketParameters, ceStreamProcessModuleMap, ceStreamDiagnosisList,
        LastReservedStream, BreakpadInfoStream, AssertionInfoStream, LinuxCpuInfo, LinuxProcStatus, LinuxLsbRelease, LinuxCmdLine, LinuxEnviron,
        LinuxAuxv, LinuxMaps, LinuxDsoDebug, CrashpadInfoStream, MozMacosCrashInfoStream, MozMacosBootargsStream, MozLinuxLimits, MozSoftErrors,
    ]
};

/// Header + directory of `bytes` (None when there is no readable header).
pub fn layout(bytes: &[u8]) -> Option<Layout> {
    if bytes.len() < 32 {
        return None;
    }
    let sig_le = u32::from_le_bytes(bytes[0..4].try_into().unwrap());
    let be = if sig_le == md::MINIDUMP_SIGNATURE {
        false
    } else if u32::from_be_bytes(bytes[0..4].try_into().unwrap()) == md::MINIDUMP_SIGNATURE {
        true
    } else {
        return None;
    };
    let rd = |o: usize| -> Option<u32> {
        let s: [u8; 4] = bytes.get(o..o + 4)?.try_into().ok()?;
        Some(if be { u32::from_be_bytes(s) } else { u32::from_le_bytes(s) })
    };
    let count = rd(8)?;
    let dir = rd(12)?;
    let mut entries = vec![];
    for i in 0..count.min(4096) as usize {
        let o = dir as usize + 12 * i;
        match (rd(o), rd(o + 4), rd(o + 8)) {
            (Some(t), Some(s), Some(r)) => entries.push(DirEntry { stream_type: t, size: s, rva: r }),
            _ => break,
        }
    }
    Some(Layout { big_endian: be, dir_rva: dir, entries })
}

// ---------------------------------------------------------------------------------------------
// fan-in shapes: k references sharing one child of size s

pub const FANIN_KINDS: &[&str] = &["thread-names", "modules", "unloaded-modules", "handles2", "memory", "memory64", "threads", "crashpad-links", "crashpad-dict"];

/// Build one fan-in dump. `k` references (for "crashpad-links": `k` links x `k2` list entries) share
/// one child of size `s`.
pub fn fanin(kind: &str, k: u32, k2: u32, s: u32, e: Endian) -> Vec<u8> {
    use md::MINIDUMP_STREAM_TYPE as ST;
    use md::PlatformId as P;
    use md::ProcessorArchitecture::*;
    let sec = || Section::with_endian(e);
    let mut d = synth::SynthMinidump::with_endian(e).add_system_info(sysinfo(e, PROCESSOR_ARCHITECTURE_INTEL, P::VER_PLATFORM_WIN32_NT));
    let text: String = "a".repeat(s as usize);
    match kind {
        "thread-names" => {
            let n = synth::DumpString::new(&text, e);
            for i in 0..k {
                d = d.add_thread_name(synth::ThreadName::new(e, i, Some(&n)));
            }
            d = d.add(n);
        }
        "modules" => {
            let n = synth::DumpString::new(&text, e);
            let cv = sec().D32(md::CvSignature::Pdb70 as u32).append_repeated(7, 16).D32(1).append_bytes(text.as_bytes()).D8(0);
            for i in 0..k {
                d = d.add_module(synth::Module::new(e, 0x1000_0000 + 0x1000 * i as u64, 0x1000, &n, 0, 0, None).cv_record(&cv).misc_record(&cv));
            }
            d = d.add(n).add(cv);
        }
        "unloaded-modules" => {
            let n = synth::DumpString::new(&text, e);
            for i in 0..k {
                d = d.add_unloaded_module(synth::UnloadedModule::new(e, 0x1000_0000 + 0x800 * i as u64, 0x1000, &n, 0, 0));
            }
            d = d.add(n);
        }
        "handles2" => {
            // k descriptors share type name, object name and one object-info chain of length min(s, 64)
            let n = synth::DumpString::new(&text, e);
            let chain = s.min(64) as usize;
            let infos: Vec<Section> = (0..chain).map(|_| sec()).collect();
            let mut built = vec![];
            for (i, sct) in infos.into_iter().enumerate().rev() {
                let next: Option<&Section> = built.last();
                let b = match next {
                    Some(nx) => sct.D32(&nx.file_offset()),
                    None => sct.D32(0),
                }
                .D32((i % 5) as u32)
                .D32(16)
                .D32(i as u32);
                built.push(b);
            }
            let first = built.last().map(|b: &Section| b.file_offset());
            let mut hs = sec().D32(16).D32(40).D32(k).D32(0);
            for i in 0..k {
                hs = hs.D64(i as u64).D32(&n.file_offset()).D32(&n.file_offset()).D32(0).D32(0).D32(0).D32(0);
                hs = match &first {
                    Some(f) => hs.D32(f),
                    None => hs.D32(0),
                }
                .D32(0);
            }
            d = d.add_stream(simple(ST::HandleDataStream as u32, hs)).add(n);
            for b in built {
                d = d.add(b);
            }
        }
        "memory" => {
            let m = sec().append_repeated(0x5a, s as usize);
            let mut l = sec().D32(k);
            for i in 0..k {
                l = l.D64(0x1000 + (s as u64) * i as u64).cite_location(&m);
            }
            d = d.add_stream(simple(ST::MemoryListStream as u32, l)).add(m);
        }
        "memory64" => {
            // k descriptors of size s over one backing block of size s: only the first fits, the reader must reject or bound the rest
            let m = sec().append_repeated(0x5a, s as usize);
            let mut l = sec().D64(k as u64).D64(&m.file_offset());
            for i in 0..k {
                l = l.D64(0x1000 + (s as u64) * i as u64).D64(s as u64);
            }
            d = d.add_stream(simple(ST::Memory64ListStream as u32, l)).add(m);
        }
        "threads" => {
            let stack = synth::Memory::with_section(sec().append_repeated(0, s as usize), 0x7000_0000);
            let ctx = synth::x86_context(e, 0x0040_0010, 0x7000_0000);
            for i in 0..k {
                d = d.add_thread(synth::Thread::new(e, i, &stack, &ctx));
            }
            d = d.add(stack).add(ctx);
        }
        "crashpad-links" => {
            // k links -> one module info -> list annotations: k2 RVAs -> one string of s bytes
            let st = synth::DumpUtf8String::new(&text, e);
            let mut list = sec().D32(k2);
            for _ in 0..k2 {
                list = list.D32(&st.file_offset());
            }
            let info = sec().D32(1).cite_location(&list).D32(0).D32(0).D32(0).D32(0);
            let mut links = sec().D32(k);
            for i in 0..k {
                links = links.D32(i).cite_location(&info);
            }
            let cp = sec().D32(1).append_repeated(0, 32).D32(0).D32(0).cite_location(&links);
            d = d.add_stream(simple(ST::CrashpadInfoStream as u32, cp)).add(links).add(info).add(list).add(st);
        }
        "crashpad-dict" => {
            // top-level simple annotations: k entries sharing one key and one value string of s bytes;
            // one module info whose annotation objects are k2 entries sharing name and value
            let st = synth::DumpUtf8String::new(&text, e);
            let mut dict = sec().D32(k);
            for _ in 0..k {
                dict = dict.D32(&st.file_offset()).D32(&st.file_offset());
            }
            let mut objs = sec().D32(k2);
            for _ in 0..k2 {
                objs = objs.D32(&st.file_offset()).D16(1).D16(0).D32(&st.file_offset());
            }
            let info = sec().D32(1).D32(0).D32(0).cite_location(&dict).cite_location(&objs);
            let links = sec().D32(1).D32(0).cite_location(&info);
            let cp = sec().D32(1).append_repeated(0, 32).cite_location(&dict).cite_location(&links);
            d = d.add_stream(simple(ST::CrashpadInfoStream as u32, cp)).add(links).add(info).add(dict).add(objs).add(st);
        }
        other => panic!("unknown fan-in kind {other}"),
    }
    d.finish().unwrap_or_else(|| panic!("fan-in {kind}: unresolved label"))
}
