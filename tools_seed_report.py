#!/usr/bin/env python3
"""Rewrites section 8.7 of DESIGN.md (between the markers) from /verif/seeded/*/meta.json."""
import json, glob, re

rows = []
for f in sorted(glob.glob('/verif/seeded/*/meta.json')):
    m = json.load(open(f))
    sid = m['id']
    own = m.get('checks', {}).get(m['property'], {})
    caught = m.get('caught_by') or []
    summary = (m.get('summary') or '').replace('|', '/').replace('\n', ' ')
    summary = re.sub(r'\s+', ' ', summary)[:170]
    if not m.get('verified'):
        status = 'not kept: ' + (m.get('note') or m.get('why') or '')[:110].replace('|', '/').replace('\n', ' ')
        sig = ''
    elif m['property'] in caught:
        status = f"caught by {m['property']} (its own check)"
        sig = (own.get('signatures') or [''])[0]
    elif caught:
        status = 'caught by ' + ', '.join(caught) + f" — missed by {m['property']} itself"
        sig = (m['checks'][caught[0]].get('signatures') or [''])[0]
    else:
        status = '**missed** by all checks' + (' (' + m['note'] + ')' if m.get('note') else '')
        sig = ''
    sig = sig.replace('|', '/')[:90]
    rows.append((sid, summary, status, sig))

kept = [r for r in rows if not r[2].startswith('not kept')]
own = [r for r in kept if 'its own check' in r[2]]
other = [r for r in kept if 'missed by' in r[2] and 'caught by' in r[2]]
missed = [r for r in kept if r[2].startswith('**missed**')]
out = []
out.append(f"{len(rows)} seeded changes were delivered; {len(kept)} were confirmed (demo passes unmodified, fails with the change, suite green) and kept. ")
out.append(f"Of the kept ones {len(own)} are caught by the quick tier of their own property's check, {len(other)} only by another property's check, {len(missed)} by none (state of the last verification run recorded in each meta.json).\n")
out.append("| seeded change | what it does | result (quick tiers) | first signature |")
out.append("|---|---|---|---|")
for r in rows:
    out.append(f"| `{r[0]}` | {r[1]} | {r[2]} | `{r[3]}` |" if r[3] else f"| `{r[0]}` | {r[1]} | {r[2]} | |")
text = "\n".join(out) + "\n"

p = '/verif/DESIGN.md'
s = open(p).read()
B, E = "<!-- SEEDED-TABLE-BEGIN -->", "<!-- SEEDED-TABLE-END -->"
if B not in s:
    s = s.replace("## Appendix A — walker conventions", f"### 8.7 Which check catches which seeded change\n\n{B}\n{E}\n\n## Appendix A — walker conventions", 1)
a, b = s.index(B) + len(B), s.index(E)
s = s[:a] + "\n" + text + s[b:]
open(p, 'w').write(s)
print(f"kept={len(kept)} own={len(own)} other={len(other)} missed={len(missed)}")
