#!/bin/bash
# Runs the repository's pinned baseline suite (guard off) in a given tree (default /repo) and summarises.
root=${1:-/repo}
cd "$root" && cargo nextest run --workspace --no-fail-fast --tool-config-file pb:/w/lib/nextest.toml --profile pb --test-threads 8 --offline 2>&1 | tail -n 400 > /tmp/suite-$$.log
grep -E "^\s+(Summary|FAIL|SIGABRT|TIMEOUT)" /tmp/suite-$$.log | sort | uniq | head -20
rm -f /tmp/suite-$$.log
