#!/usr/bin/env python3
"""Verify seeded property-breaking changes and run the checks against them.

usage: tools_seed.py <lane> <seed-dir> [<seed-dir> ...]      (seed-dir = /tmp/seed/wNN-out/K)

For each seed directory (patch.diff, demo/RUN.md + demo test file, meta.json) in a private worktree
/tmp/sv/wt-<lane> of /repo:
  1. the demo passes on the unmodified tree and fails with the patch applied;
  2. the repository's baseline suite still passes with the patch applied;
  3. the property's quick check (and, if it misses, every other quick check) is run against the
     mutated tree through a private copy of the harness (nothing is ever changed in /repo).
Results: /verif/seeded/<prop>-<wNN>-<K>/{patch.diff, demo/, meta.json} (meta.json carries what was run).
"""
import json, os, re, shutil, subprocess, sys, time

lane = sys.argv[1]
WT = f"/tmp/sv/wt-{lane}"
H = f"/tmp/sv/h-{lane}"
T = f"/tmp/sv/t-{lane}"
O = f"/tmp/sv/o-{lane}"
ENV = dict(os.environ, CARGO_NET_OFFLINE="true")

def sh(cmd, cwd=None, env=None, timeout=3600):
    p = subprocess.run(cmd, shell=True, cwd=cwd, env=env or ENV, stdout=subprocess.PIPE, stderr=subprocess.STDOUT, timeout=timeout)
    return p.returncode, p.stdout.decode(errors="replace")

def ensure_wt():
    os.makedirs("/tmp/sv", exist_ok=True)
    if not os.path.isdir(WT):
        rc, out = sh(f"git -C /repo worktree add --detach {WT}")
        assert rc == 0, out
    # reset first (a leftover patch must never block the move to the current HEAD), then move, then verify
    rc, out = sh(f"git -C {WT} reset -q --hard && git -C {WT} clean -fdq -e target && git -C {WT} checkout -q --detach $(git -C /repo rev-parse HEAD) && git -C {WT} status --short | grep -v '^??' | wc -l && git -C {WT} rev-parse HEAD && git -C /repo rev-parse HEAD")
    lines = out.strip().splitlines()
    assert rc == 0 and len(lines) >= 3 and lines[-3].strip() == '0' and lines[-2] == lines[-1], f"worktree {WT} is not a clean checkout of /repo HEAD: {out}"

def parse_run(seed):
    """find the demo test file(s), the crate they go to and the cargo test command"""
    txt = open(f"{seed}/demo/RUN.md").read()
    cps = re.findall(r"cp\s+(\S+\.rs)\s+(\S+/tests/?)", txt)
    tests = re.findall(r"(cargo test[^\n`]*--test\s+\S+[^\n`]*)", txt)
    if not cps or not tests:
        # a shell demo run from the worktree root against the freshly built command-line tool
        m = re.search(r"sh\s+(\S+/demo/)?(demo\.sh)", txt)
        if m and os.path.exists(f"{seed}/demo/demo.sh"):
            return ("SH", "", f"cargo build -p minidump-stackwalk --offline -q 2>&1 | tail -3; sh {seed}/demo/demo.sh")
        return None
    src, dst = cps[0]
    cmd = tests[0].strip()
    if "--offline" not in cmd:
        cmd = cmd.replace("cargo test", "cargo test --offline", 1)
    return src, dst.rstrip("/"), cmd

def run_demo(seed, spec):
    src, dst, cmd = spec
    if src == "SH":
        try:
            rc, out = sh(f"timeout 1500 sh -c '{cmd}'", cwd=WT, env=dict(ENV, RUST_BACKTRACE="0"), timeout=1800)
        except subprocess.TimeoutExpired:
            rc, out = 124, "TIMEOUT"
        sh(f"git -C {WT} clean -fdq -e target")
        return rc, [], out[-1500:]
    if not os.path.isabs(src):
        src = os.path.join(seed, "demo", os.path.basename(src))
    os.makedirs(f"{WT}/{dst}", exist_ok=True)
    shutil.copy(src, f"{WT}/{dst}/")
    try:
        rc, out = sh(f"timeout 900 {cmd}", cwd=WT, env=dict(ENV, RUST_BACKTRACE="0"), timeout=1200)
    except subprocess.TimeoutExpired:
        rc, out = 124, "TIMEOUT"
    os.remove(f"{WT}/{dst}/{os.path.basename(src)}")
    sh(f"git -C {WT} clean -fdq -e target")
    m = re.findall(r"test result: (\w+)\. (\d+) passed; (\d+) failed", out)
    return rc, m, out[-1500:]

def run_suite():
    rc, out = sh("cargo nextest run --workspace --no-fail-fast --tool-config-file pb:/w/lib/nextest.toml --profile pb --test-threads 8 --offline 2>&1 | tail -n 60", cwd=WT, timeout=3000)
    m = re.search(r"(\d+) tests run: (\d+) passed(?:, (\d+) failed)?", out)
    fails = re.findall(r"FAIL \[[^\]]*\] \(\s*\d+/\d+\) (\S+ \S+)", out)
    return (m.groups() if m else None), sorted(set(fails)), out[-800:]

def prepare_harness():
    if os.path.isdir(H):
        shutil.rmtree(H)
    os.makedirs(H)
    for f in ["src", "Cargo.toml", "Cargo.lock", ".cargo"]:
        s = f"/verif/harness/{f}"
        (shutil.copytree if os.path.isdir(s) else shutil.copy)(s, f"{H}/{f}")
    sh(f"sed -i 's#/repo/#{WT}/#' {H}/Cargo.toml")

def run_check(pid, tier="quick"):
    b = pid.lower()
    os.makedirs(O, exist_ok=True)
    env = dict(ENV, VERIF_OUT_DIR=O, VERIF_REPO_ROOT=WT)
    def build(binname):
        small = binname in ("c09s", "c10")
        flags = "--cfg rust_minidump_verif_smallbuf" if small else ""
        tdir = f"{T}/{'small' if small else 'plain'}"
        rc, out = sh(f"cargo build --release --offline --bin {binname}", cwd=H, env=dict(ENV, RUSTFLAGS=flags, CARGO_TARGET_DIR=tdir), timeout=3000)
        return rc, out, f"{tdir}/release/{binname}"
    if b == "c10":
        rc, out, p = build("c10real")
        if rc: return 2, "BUILD FAILED c10real\n" + out[-1500:]
        env["VERIF_C10REAL"] = p
    if b == "c09":
        rc, out, p = build("c09s")
        if rc: return 2, "BUILD FAILED c09s\n" + out[-1500:]
        env["VERIF_C09S"] = p
    if b == "c20":
        rc, out = sh("cargo build --release --offline -p minidump-stackwalk", cwd=WT, env=dict(ENV, CARGO_PROFILE_RELEASE_OVERFLOW_CHECKS="true", CARGO_PROFILE_RELEASE_DEBUG_ASSERTIONS="true", CARGO_PROFILE_RELEASE_DEBUG="0", CARGO_TARGET_DIR=f"{T}/cli"), timeout=3000)
        if rc: return 2, "BUILD FAILED cli\n" + out[-1500:]
        env["VERIF_CLI"] = f"{T}/cli/release/minidump-stackwalk"
    rc, out, p = build(b)
    if rc: return 2, f"BUILD FAILED {b}\n" + out[-1500:]
    try:
        rc, out = sh(f"timeout 1500 {p} {tier}", cwd="/verif", env=env, timeout=1800)
    except subprocess.TimeoutExpired:
        rc, out = 124, "TIMEOUT"
    return rc, out

ALL = ["C%02d" % i for i in range(1, 21)]

def summarize(out):
    sigs = re.findall(r"signature=(.*)$", out, flags=re.M)
    return {"violation_lines": len(re.findall(r"^VIOLATION", out, flags=re.M)), "known_finding_lines": len(re.findall(r"^KNOWN-FINDING", out, flags=re.M)), "signatures": sigs[:6],
            "machinery": re.findall(r"^MACHINERY.*$", out, flags=re.M)[:2]}

def main():
    for seed in sys.argv[2:]:
        seed = seed.rstrip("/")
        t0 = time.time()
        meta_in = json.load(open(f"{seed}/meta.json"))
        prop = meta_in.get("property", "C??")
        w = re.search(r"/(w\d+)-out/(\d+)$", seed)
        _m = re.search(r"/seed(\d+)/", seed)
        rnd = ("r" + _m.group(1)) if _m else ""
        sid = f"{prop}-{rnd}{w.group(1)}-{w.group(2)}"
        dest = f"/verif/seeded/{sid}"
        res = {"id": sid, "property": prop, "source": seed, "summary": meta_in.get("summary"), "needs_to_manifest": meta_in.get("needs_to_manifest"), "files_touched": meta_in.get("files_touched")}
        print(f"[{lane}] === {sid}", flush=True)
        ensure_wt()
        spec = parse_run(seed)
        if spec is None:
            res["verified"] = False
            res["why"] = "could not parse demo/RUN.md"
        else:
            rc0, m0, tail0 = run_demo(seed, spec)
            rc_apply, out_apply = sh(f"git -C {WT} apply {seed}/patch.diff")
            if rc_apply != 0:
                res["verified"] = False
                res["why"] = "patch does not apply to HEAD: " + out_apply[-300:]
            else:
                rc1, m1, tail1 = run_demo(seed, spec)
                suite, fails, stail = run_suite()
                res["ran"] = {"demo_cmd": spec[2], "demo_unmodified": {"exit": rc0, "results": m0}, "demo_with_change": {"exit": rc1, "results": m1, "tail": tail1[-600:]},
                              "suite_with_change": {"summary": suite, "failing": fails}}
                suite_ok = suite is not None and suite[1] == "239" and fails == ["minidump::test_minidump test_full_dump_memory"]
                res["verified"] = (rc0 == 0 and rc1 != 0 and suite_ok)
                if not res["verified"]:
                    res["why"] = f"demo clean rc={rc0}, mutated rc={rc1}, suite={suite} fails={fails}"
                # checks against the mutant
                prepare_harness()
                checks = {}
                order = [prop] + [p for p in ALL if p != prop]
                caught = False
                for pid in order:
                    if caught and pid != prop:
                        break
                    rc, out = run_check(pid)
                    s = summarize(out)
                    s["exit"] = rc
                    checks[pid] = s
                    print(f"[{lane}]   {sid} check {pid}: exit {rc} {s['signatures'][:2]} {s['machinery']}", flush=True)
                    if rc == 1:
                        caught = True
                    elif pid == prop:
                        continue  # missed by its own check: try all the others
                res["checks"] = checks
                res["caught_by"] = [p for p, s in checks.items() if s["exit"] == 1]
        res["wall_s"] = round(time.time() - t0)
        os.makedirs(dest, exist_ok=True)
        shutil.copy(f"{seed}/patch.diff", f"{dest}/patch.diff")
        if os.path.isdir(f"{dest}/demo"):
            shutil.rmtree(f"{dest}/demo")
        shutil.copytree(f"{seed}/demo", f"{dest}/demo")
        json.dump(res, open(f"{dest}/meta.json", "w"), indent=1)
        print(f"[{lane}] {sid}: verified={res.get('verified')} caught_by={res.get('caught_by')} ({res['wall_s']} s) {res.get('why','')}", flush=True)
    ensure_wt()

if __name__ == "__main__":
    main()
