#!/bin/bash
# Runs every check registered in MANIFEST.json (tier $1, default quick) and prints one line per check.
tier=${1:-quick}
cd /verif
for id in $(python3 -c "import json;print(' '.join(c['property_id'] for c in json.load(open('MANIFEST.json'))['checks']))"); do
  s=$(date +%s.%N)
  out=$(./check $id $tier 2>&1); rc=$?
  e=$(date +%s.%N)
  printf "%s rc=%d %.1fs  %s | viol=%s known=%s\n" $id $rc $(echo "$e - $s" | bc) "$(echo "$out" | grep -E "^\[$id\] tier=" | sed 's/.*evaluations=/evals=/' | cut -c1-70)" "$(echo "$out" | grep -c '^VIOLATION')" "$(echo "$out" | grep -c '^KNOWN-FINDING')"
done
