#!/usr/bin/env python3
"""tools_fixrec.py <property> <signature> <what>  — record HEAD of /repo as the fix of a finding."""
import json, subprocess, sys
prop, sig, what = sys.argv[1:4]
ref = sys.argv[4] if len(sys.argv) > 4 else ""
c = subprocess.check_output(['git','-C','/repo','log','-1','--format=%h']).decode().strip()
k = json.load(open('/verif/known_findings.json'))
k['findings'] = [f for f in k['findings'] if not (f['property']==prop and f['signature']==sig)]
k['findings'].append({"property": prop, "signature": sig, "status": "fixed: "+c, "record": f"fixed: property={prop} {c} {what}", "what": what, "design_ref": ref})
json.dump(k, open('/verif/known_findings.json','w'), indent=1)
print("recorded", prop, sig, c)
