#!/usr/bin/env python3
"""Regenerates MANIFEST.json from the table below (single source of truth for the interface)."""
import json, os

NOT_BUILT = "check not built yet in this round (see DESIGN.md section 3 for the planned bounded-exhaustive check)"

# id -> dict(level, technique, engine, text, note, design_ref); only properties whose check exists and is green
CHECKS = {
 "C18": dict(level="model_checking", engine="E1",
   technique="explicit-state enumeration of all set/get operation sequences (depth-bounded BFS order) on the real context types against a map model",
   text="Every sequence of register writes up to depth 2 (quick) / 3 (thorough) over all canonical names, documented aliases, extra accepted spellings and unknown names x 3 values, from two start states, for all 9 context types; in each reached state every accessor (trait and MinidumpContext dispatch, validity-set classes) is compared with a map-based reference. Complete within the bound; states/transitions reported.",
   note="Trusted: the alias tables transcribed from the documentation; values limited to 3 per write; the reference model (a BTreeMap).",
   design_ref="3/C18"),
 "C01": dict(level="fault_enumeration", engine="E1",
   technique="exhaustive one-/two-deviation field corruption, every truncation and fan-in shapes of 54 synthetic (+7 corpus) seed dumps through the full consumer driver, in sandboxed workers with panic / hang / allocation monitors",
   text="Every even offset x width {2,4,8} x boundary-value menu (0, 1, len-1, len, len+1, 2^31, 2^32-1, own offset, enclosing stream start, every directory rva and rva+size) of 27 synthetic seeds (LE and BE; together containing all 24 stream types, all 9 CPU contexts, handle chains, crashpad links, misc info 1-5, mac crash info, Linux text streams), every prefix length, all strings of length <= 3 as stream contents, and fan-in shapes (k entries sharing one child of size s, k,s in {1,8,64,512}) are run through a driver that does everything a consumer can do (read, all streams, all prints, lookups at range boundaries +-1, contexts, crash reason over OS x CPU, module accessors, text-stream iterators); thorough adds the corpus files and two deviations on structural words. Each case runs in a monitored child: panic site, hang (10 s, confirmed by a solo re-run), hard heap cap (512 MiB) and a per-operation allocation budget 64 KiB + 64*len + len^2/4.",
   note="Trusted: the seed set and value menu, budget constants, the worker monitors. Small-scope: inputs >= 3 coordinated corruptions away from any seed are not reached. F12 F13 F14 F15 and F22 (new) were found by this check and repaired; F16 (crashpad fan-in) is a known finding.",
   design_ref="3/C01"),
 "C09": dict(level="fault_enumeration", engine="E1+E3",
   technique="exhaustive short-string / field-deviation / line-sequence / long-line enumeration through the real parser with window, dropped-line-equality and heap-bound oracles, plus the scaled-buffer build for the growth/recovery machine",
   text="All byte strings of length <= 3 (alone and after a MODULE line), 15 record templates x 0/1/2 fields from a 12-token boundary menu x 4 terminators, all sequences of <= 3 [thorough 5] lines over 39 record shapes, every single-byte replacement/deletion of a valid file, real-constant long lines around every buffer threshold (10..160 KiB +-1 and over MAX) x kinds x prefixes x suffixes x LF/CRLF x read chunkings, each parsed by the real SymbolFile::parse through a counting reader (bytes read but not yet handed to the callback <= MAX at every read; a file whose only defect is one over-long line parses Ok and equals the file without it) in monitored workers; and, in the scaled build (hook H1), every single line length 17..700, all pairs/triples/quadruples over threshold menus x LF/CRLF x final newline or not under 11 reader schedules (lines <= MAX/2 kept, lines > MAX dropped with the parse Ok, no panic/hang). The line alphabet includes records that overlap the previous one by exactly one byte.",
   note="Trusted: the counting reader, the reference 'file without the line', the documented fuzzy 80-160 KiB zone, the scaling hook. Outcomes are not compared across chunkings (that is C10).",
   design_ref="3/C09"),
 "C13": dict(level="model_checking", engine="E2",
   technique="stateless exhaustive exploration of all supplier completion orders / poll interleavings of the real process_minidump future under a controlled scheduler; all delay vectors; labelled sampling for hash seeds",
   text="The single real process_minidump future (threads walked concurrently through join_all) is driven by the hand-rolled scheduler: for every generated input (3 threads x 3 modules, each module requested by two threads; plain / 16-row proc limits / alias-colliding CFI rules / missing+corrupt symbols / amd64 register rules), 1..2 [thorough 3] supplier suspensions per lookup and spurious-poll budget 0..1, EVERY IO completion order and poll interleaving is executed and text, brief, JSON and pretty JSON must equal the zero-delay run byte for byte; plus every delay vector in {0,1,2}^n under a poll-to-completion executor. Hash seeds cannot be enumerated: 32 [128] repeated in-process runs and a free-running 4-thread tokio runtime are labelled sampling (exhaustive: false for that half). Inputs include module names differing only in case and twin modules sharing one CodeView record that are reached only after a first lookup completes. Also: three processings in a row with one symbolizer; every sequence of 2 or 3 reports over 5 CPUs (32-bit, 64-bit, unknown) printed on one fresh thread (the last must equal the same report printed alone); inputs with two same-named modules and with bit-flip candidates from two registers.",
   note="Trusted: poll bodies atomic under the explorer; the sampled half only adds evidence. F9 (proc_limits order) and F10 (alias CFI rules in hash order) were found by this check and repaired.",
   design_ref="3/C13"),
 "C02": dict(level="exploration", engine="E1",
   technique="bounded-exhaustive model -> serialise -> parse round trip (4 variants: LE/BE x MemoryList/Memory64List) against the model and independently re-derived identifiers",
   text="Every model of nine finite product spaces (module/CodeView menus, thread layouts for 9 CPUs, memory placements incl. top of address space, system/misc/exception menus, list lengths 0..40, stream presence, duplicate directory entries) is serialised through minidump-synth in both byte orders and both memory-list formats, parsed by the real library and compared with the model field by field, by address lookup of every region byte, with independently re-derived debug/code ids and versions, and across the four parses. Complete enumeration of the stated products, no sampling.",
   note="Trusted: minidump-synth/test_assembler as serialiser, scroll derive symmetry for contexts synth cannot write, the hand-written reference derivations in c02.rs, debugid formatting. Known finding F18 (ELF build-id debug id differs LE vs BE).",
   design_ref="3/C02"),
 "C03": dict(level="fault_enumeration", engine="E1",
   technique="exhaustive one-deviation dump corruption x symbol menu, plus complete targeted products for each anchored mechanism, through the real processor and all renderers in sandboxed workers with panic / hang / allocation monitors, frame-budget and JSON-validity oracles",
   text="Every case = (dump bytes, symbol bytes served to every module, option set rotating over stable_basic / stable_all / unstable_all) through process_minidump_with_options and print / print_brief / print_json(false|true) in monitored children (8 s wall confirmed by a solo re-run, 768 MiB cap): one-deviation mutations (every 4-aligned offset x width {4,8} x boundary/directory-value menu) of the 54 synthetic seeds x 7 symbol menus (quick: one of 8 shards chosen by VERIF_SEED, completely; thorough: all); all sequences of <= 3 /proc limits lines over 10 shapes; amd64 crash contexts over ALL 2-byte [3-byte] instruction prefixes x rsp menu; x86 STACK WIN records with every size field in {0,1,4,2^31,2^32-1} x 3 record kinds x 4 esp; CFI menus (CFA below/equal/above sp, memory-free rules) x 9 CPUs x 5 platforms x stack sizes x placements incl. top of address space; memory-map regions ending at the extremes. Then frames <= stack bytes + 2 per thread and strict JSON validity. Symbol menus also hold records overlapping by one byte / nested / duplicated and CFI ranges that hand control to each other without moving sp. Further spaces: every (a, b, operator) triple over operand menus on the extremes of the 32-bit and 64-bit ranges through both postfix evaluators end to end; loaded and unloaded modules touching the ends of the address space (ending exactly at 2^64, one byte below, past it, empty) with a thread at their first / last / one-past-last byte.",
   note="Trusted: seed set, menus, monitors; small scope (one deviation from a seed, 7 symbol files). Budgets are generous constants. F4 and F6 were found by this check and repaired (F2 F3 F5 F7 F19 by C07/C19/C05).",
   design_ref="3/C03"),
 "C20": dict(level="exploration", engine="E4",
   technique="complete enumeration of the command-line option matrix (720 configurations) on the freshly built binary, differential against in-process library output",
   text="The freshly built minidump-stackwalk binary is run under the COMPLETE matrix {no mode, --human, --json, --cyborg P, --dump} x --brief x --pretty x --features x --output-file x --log-file x symbols {none, positional, --symbols-path} (with --no-interactive alternating) on 2 inputs (quick) / every input (thorough), and every input (corpus dumps, generated dumps, missing path, empty file, directory, garbage with a valid magic) under 8 spanning configurations, plus argument-parser rejections. Oracle: exit status; primary output (stdout or --output-file) byte-equal to the library's print / print_brief / print_json for the same options; --cyborg file == JSON; stdout empty with --output-file; rejected combinations and unreadable inputs exit 1 with a diagnostic and no output; never 101/134/signal; raw dump output contains the library printers in order and is independent of unrelated options. Every mode is also run with an unwritable primary / cyborg output (/dev/full): it must fail with a diagnostic, never exit 0. Also: every valid mode with --symbols-url pointing at a loopback server that answers 404 at once or after 300 ms; both spellings of a symbol directory in one command line; outputs that cannot be created (missing parent directory, a directory).",
   note="Trusted: expected reports come from the same library in-process (C13 shows they are reproducible); the raw-dump expectation is landmark-based; clap usage errors (status 2) are accepted as clean rejections.",
   design_ref="3/C20"),
 "C04": dict(level="exploration", engine="E1",
   technique="bounded-exhaustive enumeration of generated stack programs, differential against generated ground truth through the real walk_stack",
   text="Every stack program up to the depth/size/style bounds (9 arch/OS variants; per-frame technique in {CFI, frame pointer, scan, STACK WIN framedata, STACK WIN fpo, CFI leaf} x frame sizes incl. the scan-window edges 40/160/128/256 words x 8 styles: saved-register subsets, split CFI records, Windows slack 0..240, pointer-auth bits, numeric register spellings, one or two modules; full technique product to depth 4 [thorough 5] plus uniform chains of depth up to 64) is laid out with its true call chain by an independent generator, walked by the real walk_stack and compared frame by frame: return address, instruction adjustment, sp, recovered callee-saved registers, trust label, module, function, and the end of the walk. A placement space adds module lists that are not in address order, bystander modules and placements at the top of each architecture's user address space (ARM64 above 2^47, where pointer-auth stripping must keep the high bits). Placements also put two modules around a power-of-two boundary (2^47 on ARM64, the sign bit on 32-bit CPUs, the upper canonical half on amd64); 32-bit ARM runs on iOS, Android, macOS, Windows and Linux; function 1 ends its module with the call (return address one past the module), CFI rows begin exactly at return addresses, scanned frames hold a stale word into function padding, every FUNC has a PUBLIC at its own address.",
   note="Trusted: the generator/oracle in stackgen.rs (conventions of DESIGN Appendix A), MinidumpContext register access (C18). F20 (MIPS64 scanned frames) and F21 (ARM fp alias in CFI forwarding) were found by this check and repaired.",
   design_ref="3/C04"),
 "C05": dict(level="exploration", engine="E1",
   technique="bounded-exhaustive product of small stacks x contexts x validity x symbols x modules x placements, invariant checking on every returned CallStack with a frame-budget sentinel",
   text="All stacks of N=4 [thorough 5] words over a K=8 [9] value alphabet (0, 4095, in/outside a function, stack self-references, one-past-the-end, all-ones) x 8 register contexts x 3 validity sets x 7-9 symbol menus (none, FUNC only, CFA above/equal/below sp, CFA from memory, memory-free CFI, STACK WIN) x module menus x 2 placements (middle, top of the address space) x 9 arch variants are walked; the statement's invariant is evaluated on every returned call stack (context frame, return address >= 4096, instruction adjustment, trust, strictly increasing sp with the ARM/MIPS first-frame exception, scanned return address == word below sp, module/function cover) and a callback sentinel cuts walks at stack bytes + 2 frames. Extra spaces: the first byte of an adjacent module as a return address, and CFI ranges that call each other without moving sp (a walk must not cycle). Further spaces on every variant: a second word alphabet (code / stack addresses with high bits set, the return address one past a module's end), contexts with sign-extended 32-bit values in 64-bit register slots, a PUBLIC-only symbol file.",
   note="Trusted: the invariant code in c05.rs and its independent word reader. F7 (unbounded memory-free CFI walk), F19 (amd64 overflow) and F20 were found by this check and repaired.",
   design_ref="3/C05"),
 "C06": dict(level="exploration", engine="E1",
   technique="bounded-exhaustive enumeration of all STACK CFI rule programs up to a length bound, differential against a documentation-derived reference interpreter",
   text="Every token sequence of length <= 4 [thorough 5] over a 26-token alphabet (operators, .cfa/.ra/.undef, boundary literals, known/unknown registers with and without $, junk) hosted in the CFA, RA and a general-register rule, every stack-valid expression up to 2 tokens longer, and a structure product (225 INIT rule lists x delta records x address layouts x lookup addresses x register files x memory images) are parsed and evaluated by the real SymbolFile::walk_frame (and amd64 walk_stack) and compared with an independent reference interpreter written from walker.rs' module documentation: Some/None, cfa, ra, set and cleared registers. Same-address delta lines that assign disjoint registers are included, and the real walk_stack is driven on amd64, x86 and ARM with rule values wider than the register. Also: deep expressions (1..64 operands pending at once, right-nested memory reads, left-leaning chains), rules naming a real register in upper case through the real walk_stack.",
   note="Trusted: the reference interpreter refcfi.rs and the mock FrameWalker; carve-outs (signedness of / and %, equal-address deltas, alias-colliding labels) in the evidence assumptions.",
   design_ref="3/C06"),
 "C07": dict(level="exploration", engine="E1",
   technique="bounded-exhaustive enumeration of STACK WIN programs / FPO parameter products, differential against a documentation-derived reference interpreter + real x86 walk_stack validity check",
   text="Every program of length <= 4 [thorough 5] over a 30-token alphabet, every stack-valid program up to 3 tokens longer, the FPO product (size menu^3 incl. 2^31 and 2^32-1, allocates_base_pointer, esp incl. <8 and top of space, ebp/ebx presence, grand-callee settings, leftover return address), the size-field product, two-record overlap arrangements, and an x86 walk_stack space are evaluated by the real code and compared with an independent reference (refwin.rs): result, reported registers and values, caller validity set; extreme size fields must fail cleanly. FPO sums past 2^32 must fail cleanly; a chains space walks 3-frame x86 stacks with an unsymbolicated grand callee, direct recursion and FPO / frame-data records. Also: deep programs (1..48 pending operands), the align operator written only in the glued '=@' spelling.",
   note="Trusted: the reference interpreter refwin.rs (the '@' and leftover-return rules come from code comments). F2/F3 (overflow panics) were found and repaired; F1 (registers not cleared) is a known finding.",
   design_ref="3/C07"),
 "C16": dict(level="fault_enumeration", engine="E4",
   technique="exhaustive fault / cancellation-point enumeration of a short download history against the real HttpSymbolSupplier over a scripted loopback HTTP server, file-system invariant oracle",
   text="Every scenario of a finite script space runs the real supplier over loopback TCP: the connection cut after EVERY byte count under content-length / chunked / close-delimited framing, every two-chunk split, trickles, each line corrupted, missing final newline, error/redirect statuses, stall, the client future dropped after each server event (client quiesced) at many split points, pre-existing cache entry, unusable cache/tmp directories, two servers, failure-then-success histories, and the same for opaque file downloads. After each run cache/ and tmp/ are walked (entry only after Ok, exactly downloaded bytes + INFO URL note, no stray temp file) and a fresh supplier with a dead server must reload an equal SymbolFile. Bodies that already carry an INFO URL line and a line longer than the parser window are included. Also: an unterminated over-long last line; a file-size quota (RLIMIT_FSIZE in sandboxed workers) that cuts the cache copy at every byte from 0 to body + note.",
   note="Trusted: the scripted server; poll boundaries inside hyper/tokio are not enumerable (cancellation happens after each server event at client quiescence); SIGKILL not enumerated.",
   design_ref="3/C16"),
 "C08": dict(level="exploration", engine="E1",
   technique="bounded-exhaustive enumeration of entry sequences through all 12 range-table builders, brute-force differential against the input list",
   text="All input-ordered sequences of <= 3 (thorough 4) entries over an address domain containing both ends of the address space, through every table builder (generic IntoRangeMapSafe, the parser-local copy via FUNC/line/CFI/WIN text, module, memory (both descriptors), memory-info, Linux-maps and unloaded-module lists, and the same read back from synthesised dumps); every lookup and iteration is compared with a brute-force filter over the input list (soundness, sortedness/disjointness, completeness for non-intersecting entries, exact set for unloaded modules).",
   note="Trusted: the alphabet/address domain, each builder's documented own-range definition, identity tagging of entries.",
   design_ref="3/C08"),
 "C10": dict(level="model_checking", engine="E3",
   technique="explicit-state model checking of the streaming buffer machine over all chunk schedules + trace conformance replay on the real parser (sync and async), scaled and real constants",
   text="A Rust transition-system model of SymbolFile::parse/parse_async + circular::Buffer is searched (memoised, complete) over ALL reader schedules / body chunkings for every input of the families (1..3 lines at every buffer threshold +-1, with/without final newline, record files with each line corrupted, tiny inputs), in the scaled build (hook H1). It is bound to the code by replaying millions of schedules (every model-outcome witness, all fixed chunk sizes, trickle, every 1-deviation schedule, every split point, all compositions of tiny inputs) on the real sync and async parsers and requiring identical reads, callback slices and outcomes, plus the same conformance at the real constants in the stock build. Verdicts come from real-code observations; a pure model/code divergence is a machinery error.",
   note="Trusted: the scaling hook (constants only), the abstraction of the line parser (validated by conformance), error identity not compared. F8 (no final newline: outcome depended on chunking) and F29 (an empty body chunk taken for the end of the stream) were found by this check and repaired; async bodies are also replayed with one empty frame at every position.",
   design_ref="3/C10"),
 "C11": dict(level="exploration", engine="E1",
   technique="bounded-exhaustive record-menu product of symbol files x every address x module bases, linear-scan reference model",
   text="All symbol files of a menu product (FUNC placements/sizes, line tables incl. size 0 and line numbers 0/1/2, INLINE sets to depth 2 with multi-range/overlap/undefined origins, PUBLIC sets, STACK WIN parameter sizes) are parsed and queried at every offset -1..17 and three module bases through SymbolFile::fill_symbol, and end to end through walk_stack -> Symbolizer -> StackFrame; results equal a linear scan over the generator's records (exact when nothing overlaps, the statement's weaker promises otherwise). A nests space adds dangling INLINE_ORIGIN ids on every subset of nesting levels (to depth 7) and STACK WIN records that start mid-function or do not span it.",
   note="Trusted: the menus, the linear-scan reference and its overlap classifier; carve-outs listed in the evidence assumptions.",
   design_ref="3/C11"),
 "C12": dict(level="model_checking", engine="E2",
   technique="stateless exhaustive exploration (DFS over all poll / IO-completion / bounded spurious-poll interleavings) of real futures sharing the real Symbolizer under a controlled scheduler",
   text="Every schedule of a hand-rolled single-threaded executor (poll any woken task, complete any pending supplier IO, spurious polls within a budget) is executed on a fresh real Symbolizer for every configuration (task-symmetric multisets of 2..3 [thorough 4] task scripts over fill_symbol/walk_frame/get_file_path x colliding module keys, supplier suspensions 0..2 [3], answers Ok/NotFound/ParseError). Oracle per execution: supplier asked at most once per module, every requester sees the scripted outcome, no deadlock/lost wake-up, pending counters and stats entries; replay determinism asserted. No deviation cap: complete within the configurations. Twin modules (same debug file and id, different code file) must be located separately.",
   note="Trusted: poll bodies are atomic (single-threaded executor); real-thread interleavings inside std/futures-util primitives are assumed linearizable (loom/shuttle cannot intercept them here); cancellation excluded by the property.",
   design_ref="3/C12"),
 "C14": dict(level="exploration", engine="E1",
   technique="bounded-exhaustive differential enumeration of generated dumps against an independent index / crash-reason model, end to end through process_minidump",
   text="Every dump of the stated finite products (12 OS ids x 12 CPUs x the whole per-OS exception-record menu incl. codes just outside the enumerations; thread-id patterns x exception thread x Breakpad-info cases x context readability for both sources x CPU x OS; misc-info flags x Linux status x unloaded-module layouts x thread counts up to 32) is generated deterministically, processed by the real code through the public API and compared with a reference computed from the generator parameters: one stack per thread in order with ids and names, dump-writer thread skipped, requesting thread and its frame-0 context, crash reason and address per the documented case analysis, pid/times, per-frame unloaded-module offsets. An unloaded-overlap space enumerates every ordered list of 3-4 nested / overlapping unloaded modules on a small grid with frames at every range boundary. Also: the stack pointer one past the end of the stack descriptor with another region starting there; single-bit neighbours of the 12-bit Windows facility field; Breakpad-info validity words with bits beyond the two defined ones.",
   note="Trusted: minidump-synth as serialiser, the error-name tables of minidump_common::errors as data, the reference model in procgen.rs; carve-outs (duplicate ids, EXC_RESOURCE detail text) in the evidence assumptions.",
   design_ref="3/C14"),
 "C15": dict(level="exploration", engine="E1",
   technique="bounded-exhaustive enumeration of process states (C14/C19 spaces + hostile-name menu) rendered to JSON, independent strict JSON parser + mechanised schema + cross-field consistency oracle",
   text="Every process state produced by the C14 spaces, a slice of the C19 space, and a hostile-name menu (each control character, quotes, backslash, non-BMP, U+2028/9, BOM, a 70 000-character name, lossy-decoded bytes) injected through module, thread, function, file and unloaded-module names is rendered with print_json(pretty in {false,true}); the bytes are parsed by a hand-written strict RFC 8259 parser, checked against a mechanisation of json-schema.md (names, types, closed enumerations, hexstrings padded to the pointer width) and for agreement of all redundant fields (counts, frame indices, crashing-thread copy, offsets, modules mirror). Also a product of 10 amd64 instruction kinds (read, write, read-modify-write, two accesses, implicit stack accesses, none) x rsp menu x 4 exception renderings x register fill x memory map.",
   note="Trusted: the mechanised schema transcription and the hand-written JSON parser (serde_json used only as a second opinion). Known finding F17 (unknown OS renders '0x0x...').",
   design_ref="3/C15"),
 "C19": dict(level="exploration", engine="E1",
   technique="bounded-exhaustive product of examined addresses x memory maps x exception kinds x instruction kinds x CPUs through process_minidump, single-bit-neighbour oracle",
   text="The full product of an address menu (boundary values, every single-bit neighbour of region addresses, non-canonical values), map menus (0..3 [thorough 4] regions x permission rotations, MemoryInfoList and LinuxMaps, incl. a region ending at 2^64-1), 8 exception kinds and instruction-byte kinds is processed end to end on amd64/ppc64/mips64 (and a reduced product on arm64/x86/arm where nothing may be reported); every reported flip must differ from the examined value in exactly one bit inside the platform range, be null or inside a region permitting the access, and never appear when the examined value is itself accessible, for null+offset accesses, or on 32-bit/ARM64; confidences in [0,1]. Further spaces: register files crowded around the candidate address (confidence heuristics) and every single-bit neighbour (bits 40..63) of every non-canonical examined value, mapped and unmapped. Also the 10-instruction-kind product of C15 (access kinds) with registers at 0 or at a mapped address.",
   note="Trusted: the generator's map reference. Soundness only (no completeness claim). F5 (end+1 overflow) was found by this check and repaired.",
   design_ref="3/C19"),
 "C17": dict(level="exploration", engine="E1",
   technique="exhaustive enumeration of all short strings over a path alphabet through every lookup function (textual path-containment oracle) and of all short token sequences through the real HTTP supplier behind a logging loopback proxy (requests observed on the wire)",
   text="Every name of length <= 5 (thorough 6) over {a . / \\ : C NUL e-acute} as debug_file and as code_file (other field from a menu), all pairs of strings <= 3, id menus, real MinidumpModules read back from synthesised dumps; every public lookup function (breakpad_sym_lookup, code_info_breakpad_sym_lookup, extra_debuginfo_lookup, binary_lookup, lookup x 3 kinds, moz_lookup); each returned cache/server path is judged textually (no leading separator, no drive prefix, no '..' component) and by a lexical join onto a root. Server URLs: for every sequence of <= 3 (thorough 4) tokens over {a . .. %2e %2E : https: http: / \\ ? # % @} as debug_file / code_file / both, the real HttpSymbolSupplier looks up symbols, binary and debug file while the process's HTTP(S) traffic goes through a logging loopback proxy; every request must be a GET to the configured host with a path under the configured root and no segment decoding to '..'; symbol files are served and whatever the supplier creates on disk must lie inside its cache / tmp directories. Symbol directories: the real SimpleSymbolSupplier searches a symbol directory three levels deep in a scratch tree full of decoy files outside it, for every sequence of <= 4 (thorough 5) tokens over {x . .. / \\ C: NUL} and the absolute paths of decoys; every returned path must lie inside the symbol directory.",
   note="Trusted: the textual classifier; the proxy sees what reqwest sends. F11 (empty / '.' / '..' / drive-prefixed leaves) and F28 (lookup paths resolved as URL references) were found by this check and repaired (fix commits recorded in known_findings.json).",
   design_ref="3/C17"),
}

# later additions per check (appended to the text above)
EXTRA = {
 "C03": " CFI rule files also assign to names one letter away from a real register.",
 "C06": " Rules that read the last word of the captured stack and the word just past it are part of the alphabet.",
 "C07": " Programs that leave $eip without a value, and .raSearchStart next to .raSearch, are part of the program menus.",
 "C10": " Test lines are PUBLIC records (a dropped or duplicated line shows in the table); the empty input and a lone newline; at the real constants a long line, a swept filler (134 sizes) and a second long line.",
 "C12": " Supplier answers also include the two other failure kinds (no usable identifiers, I/O error).",
 "C13": " Further inputs: 32-bit ARM scanned frames whose stale words point into a module first asked for mid-scan; a dump whose process creation time lies after its time stamp, processed again 1.1 s later.",
 "C14": " Process ids up to 2^32-1; EXC_RESOURCE / EXC_GUARD records with fewer parameters than the decoder reads.",
 "C15": " macOS crash-info records of every format version (num_records = length of records).",
 "C16": " A directory where the cache entry would go; name-collision scenarios use one connection per request.",
 "C17": " The symbol directory also holds a server's index files and has '..x' decoys beside it; strings over characters whose case mapping yields ASCII.",
 "C19": " 32-bit MIPS, SPARC and PPC are among the CPUs on which nothing may be reported.",
 "C20": " A symbols path with a comma and a blank in it.",
}

ALL = ["C%02d" % i for i in range(1, 21)]
REASONS = {}

def main():
    checks = []
    for pid in ALL:
        if pid not in CHECKS: continue
        c = CHECKS[pid]
        checks.append({
            "property_id": pid,
            "quick_cmd": f"./check {pid} quick",
            "thorough_cmd": f"./check {pid} thorough",
            "evidence_file": f"/verif/evidence/{pid}.json",
            "replay_cmd_template": f"./check replay {pid} {{path}}",
            "engine": c["engine"],
            "level_claimed": {"category": c["level"], "text": c["text"] + EXTRA.get(pid, ""), "design_ref": c["design_ref"]},
            "level_note": c["note"],
            "technique": c["technique"],
        })
    man = {
        "version": 1,
        "setup_cmd": "./check build",
        "hooks": {
            "guard": "rust_minidump_verif_smallbuf",
            "enable": "RUSTFLAGS=\"--cfg rust_minidump_verif_smallbuf\" with CARGO_TARGET_DIR=/verif/target/smallbuf (set by ./check for the bins that need it: c09s, c10); every other check builds /repo without any cfg",
            "baseline_off_cmd": "cd /repo && cargo nextest run --workspace --no-fail-fast --tool-config-file pb:/w/lib/nextest.toml --profile pb --test-threads 8 --offline",
            "source_commits": HOOK_COMMITS,
            "add_only": True,
        },
        "engines": [
            {"name": "E1", "path": "/verif/harness/src/core.rs", "serves_properties": [p for p in ALL if p in CHECKS and CHECKS[p]["engine"].startswith("E1")], "kind_free_text": "bounded-exhaustive enumeration of case spaces on the real code (in-process threads or monitored sandbox workers) against reference models"},
            {"name": "E2", "path": "/verif/harness/src/sched.rs", "serves_properties": [p for p in ALL if p in CHECKS and CHECKS[p]["engine"].startswith("E2")], "kind_free_text": "hand-rolled controlled scheduler: stateless DFS over all poll / IO-completion interleavings of real futures"},
            {"name": "E3", "path": "/verif/harness/src/bufmodel.rs", "serves_properties": [p for p in ALL if p in CHECKS and CHECKS[p]["engine"].startswith("E3")], "kind_free_text": "explicit-state model of the streaming buffer machine + conformance replay on the real parser (small-buffer build)"},
            {"name": "E4", "path": "/verif/harness/src/bin", "serves_properties": [p for p in ALL if p in CHECKS and CHECKS[p]["engine"].startswith("E4")], "kind_free_text": "fault / configuration enumeration against the real HTTP supplier (scripted loopback server) and the real CLI binary"},
        ],
        "checks": checks,
        "notes": "All checks are driven by /verif/check; exit 0 held / only known findings, 1 VIOLATION, 2 machinery error. Known findings: /verif/known_findings.json. Design: /verif/DESIGN.md.",
        "not_applicable": [{"property_id": p, "reason": REASONS.get(p, NOT_BUILT)} for p in ALL if p not in CHECKS],
    }
    json.dump(man, open(os.path.join(os.path.dirname(os.path.abspath(__file__)), "MANIFEST.json"), "w"), indent=1)
    print("wrote MANIFEST.json with", len(checks), "checks")

HOOK_COMMITS = ["c9b249b"]
if __name__ == "__main__":
    main()
