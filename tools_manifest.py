#!/usr/bin/env python3
"""Regenerates MANIFEST.json from the table below (single source of truth for the interface)."""
import json, os

NOT_BUILT = "check not built yet in this round (see DESIGN.md section 3 for the planned bounded-exhaustive check)"

# id -> dict(level, technique, engine, text, note, design_ref); only properties whose check exists and is green
CHECKS = {
 "C18": dict(level="model_checking", engine="E1-explicit-state",
   technique="explicit-state enumeration of all set/get operation sequences (depth-bounded BFS order) on the real context types against a map model",
   text="Every sequence of register writes up to depth 2 (quick) / 3 (thorough) over all canonical names, documented aliases, extra accepted spellings and unknown names x 3 values, from two start states, for all 9 context types; in each reached state every accessor (trait and MinidumpContext dispatch, validity-set classes) is compared with a map-based reference. Complete within the bound; states/transitions reported.",
   note="Trusted: the alias tables transcribed from the documentation; values limited to 3 per write; the reference model (a BTreeMap).",
   design_ref="3/C18"),
}

ALL = ["C%02d" % i for i in range(1, 21)]
REASONS = {}

def main():
    checks = []
    for pid in ALL:
        if pid not in CHECKS: continue
        c = CHECKS[pid]
        checks.append({
            "property_id": pid,
            "quick_cmd": f"./check {pid} quick",
            "thorough_cmd": f"./check {pid} thorough",
            "evidence_file": f"/verif/evidence/{pid}.json",
            "replay_cmd_template": f"./check replay {pid} {{path}}",
            "engine": c["engine"],
            "level_claimed": {"category": c["level"], "text": c["text"], "design_ref": c["design_ref"]},
            "level_note": c["note"],
            "technique": c["technique"],
        })
    man = {
        "version": 1,
        "setup_cmd": "./check build",
        "hooks": {
            "guard": "rust_minidump_verif_smallbuf",
            "enable": "RUSTFLAGS=\"--cfg rust_minidump_verif_smallbuf\" with CARGO_TARGET_DIR=/verif/target/smallbuf (set by ./check for the bins that need it: c09s, c10); every other check builds /repo without any cfg",
            "baseline_off_cmd": "cd /repo && cargo nextest run --workspace --no-fail-fast --tool-config-file pb:/w/lib/nextest.toml --profile pb --test-threads 8 --offline",
            "source_commits": HOOK_COMMITS,
            "add_only": True,
        },
        "engines": [
            {"name": "E1", "path": "/verif/harness/src/core.rs", "serves_properties": [p for p in ALL if p in CHECKS and CHECKS[p]["engine"].startswith("E1")], "kind_free_text": "bounded-exhaustive enumeration of case spaces on the real code (in-process threads or monitored sandbox workers) against reference models"},
            {"name": "E2", "path": "/verif/harness/src/sched.rs", "serves_properties": [p for p in ALL if p in CHECKS and CHECKS[p]["engine"].startswith("E2")], "kind_free_text": "hand-rolled controlled scheduler: stateless DFS over all poll / IO-completion interleavings of real futures"},
            {"name": "E3", "path": "/verif/harness/src/bufmodel.rs", "serves_properties": [p for p in ALL if p in CHECKS and CHECKS[p]["engine"].startswith("E3")], "kind_free_text": "explicit-state model of the streaming buffer machine + conformance replay on the real parser (small-buffer build)"},
            {"name": "E4", "path": "/verif/harness/src/bin", "serves_properties": [p for p in ALL if p in CHECKS and CHECKS[p]["engine"].startswith("E4")], "kind_free_text": "fault / configuration enumeration against the real HTTP supplier (scripted loopback server) and the real CLI binary"},
        ],
        "checks": checks,
        "notes": "All checks are driven by /verif/check; exit 0 held / only known findings, 1 VIOLATION, 2 machinery error. Known findings: /verif/known_findings.json. Design: /verif/DESIGN.md.",
        "not_applicable": [{"property_id": p, "reason": REASONS.get(p, NOT_BUILT)} for p in ALL if p not in CHECKS],
    }
    json.dump(man, open(os.path.join(os.path.dirname(os.path.abspath(__file__)), "MANIFEST.json"), "w"), indent=1)
    print("wrote MANIFEST.json with", len(checks), "checks")

HOOK_COMMITS = ["c9b249b"]
if __name__ == "__main__":
    main()
