#!/bin/bash
# Run checks against a scratch mutant of /repo without touching /repo:
#   tools_mutant.sh <tag> <patch.diff> <ID> [tier] [<ID> [tier]] ...   (patch "-" = unmodified copy)
#   tools_mutant.sh <tag> clean
# Worktree /tmp/wt-<tag>, harness copy /tmp/h-<tag>, target /tmp/t-<tag>, outputs /tmp/o-<tag>.
set -u
tag=$1; shift
WT=/tmp/wt-$tag; H=/tmp/h-$tag; T=/tmp/t-$tag; O=/tmp/o-$tag
if [ "${1:-}" = clean ]; then
  git -C /repo worktree remove --force "$WT" 2>/dev/null; rm -rf "$WT" "$H" "$T" "$O"; git -C /repo worktree prune; exit 0
fi
patch=$1; shift
if [ ! -d "$WT" ]; then git -C /repo worktree add --detach "$WT" >/dev/null 2>&1 || exit 2; fi
git -C "$WT" checkout -q -- . ; git -C "$WT" clean -fdq; git -C "$WT" checkout -q --detach "$(git -C /repo rev-parse HEAD)"
if [ "$patch" != "-" ]; then git -C "$WT" apply "$patch" || { echo "patch does not apply"; exit 2; }; fi
rm -rf "$H"; mkdir -p "$H" "$O"
cp -r /verif/harness/src /verif/harness/Cargo.toml /verif/harness/Cargo.lock /verif/harness/.cargo "$H"/
sed -i "s#/repo/#$WT/#" "$H/Cargo.toml"
rc=0
while [ $# -gt 0 ]; do
  id=$1; shift; tier=quick
  case "${1:-}" in quick|thorough) tier=$1; shift;; esac
  bin=$(echo "$id" | tr 'A-Z' 'a-z'); flags=""
  case "$bin" in c09s|c10) flags="--cfg rust_minidump_verif_smallbuf";; esac
  if ! (cd "$H" && RUSTFLAGS="$flags" CARGO_TARGET_DIR=$T/$( [ -n "$flags" ] && echo small || echo plain) cargo build --release --offline --bin "$bin" >"$O/build-$bin.log" 2>&1); then
    echo "BUILD FAILED for $bin"; tail -30 "$O/build-$bin.log"; rc=2; continue
  fi
  # helper binaries / the CLI built from the mutated tree
  case "$bin" in
    c10) (cd "$H" && RUSTFLAGS="" CARGO_TARGET_DIR=$T/plain cargo build --release --offline --bin c10real >>"$O/build-$bin.log" 2>&1) && export VERIF_C10REAL=$T/plain/release/c10real ;;
    c09) (cd "$H" && RUSTFLAGS="--cfg rust_minidump_verif_smallbuf" CARGO_TARGET_DIR=$T/small cargo build --release --offline --bin c09s >>"$O/build-$bin.log" 2>&1) && export VERIF_C09S=$T/small/release/c09s ;;
    c20) (cd "$WT" && CARGO_PROFILE_RELEASE_OVERFLOW_CHECKS=true CARGO_PROFILE_RELEASE_DEBUG_ASSERTIONS=true CARGO_PROFILE_RELEASE_DEBUG=0 CARGO_TARGET_DIR=$T/cli cargo build --release --offline -p minidump-stackwalk >>"$O/build-$bin.log" 2>&1) && export VERIF_CLI=$T/cli/release/minidump-stackwalk ;;
  esac
  b=$T/$( [ -n "$flags" ] && echo small || echo plain)/release/$bin
  VERIF_OUT_DIR=$O VERIF_REPO_ROOT=$WT "$b" "$tier" > "$O/$id.out" 2>&1; r=$?
  echo "== $id $tier exit=$r  ($(grep -c '^VIOLATION' "$O/$id.out") VIOLATION lines, $(grep -c '^KNOWN-FINDING' "$O/$id.out") KNOWN-FINDING lines)"
  grep -E "violation:|^KNOWN-FINDING|MACHINERY" "$O/$id.out" | head -8
  [ $r -gt $rc ] && rc=$r
done
exit $rc
